"""T5 GUARDED-ARITH: unsigned subtraction / remainder / division whose operand derives from the
length of a collection that is empty or a singleton by design must be guarded."""
from .rulelib import TCYCLE, TRANSITION, call, field, fn_of_closure

CMP_OPS = {"op:Eq", "op:Ne", "op:Lt", "op:Le", "op:Gt", "op:Ge"}
LEN_CALLS = {call("alloc::vec::Vec::len"), call(TCYCLE + "::len"), call("core::slice::<impl [T]>::len")}
SOURCES = {
    call(TCYCLE + "::len"), call(TCYCLE + "::iter"), call(TCYCLE + "::get_vec"),
    field(TCYCLE, "cycle"), field(TRANSITION, "cycles"), field(TRANSITION, "empty_cycles"),
}
POSITION_DECL = "core::iter::traits::iterator::Iterator::position"


def has_position(at):
    return ("call:" + POSITION_DECL) in at or ("decl:" + POSITION_DECL) in at
UNWRAPS = ("core::option::Option::unwrap", "core::option::Option::expect")
INDEX = "<alloc::vec::Vec as core::ops::index::Index>::index"
PUSH = "alloc::vec::Vec::push"
SAFE_SUBS = {"usize::saturating_sub", "usize::checked_sub"}


def closure_agg(an, parent_key, closure_key):
    pfd = an.fd(parent_key)
    if pfd is None:
        return None, None
    for ins in pfd.body.instrs():
        if ins.kind == "assign" and ins.rv_kind() == "agg" and ins.rv.get("ak") == "closure":
            ck = ins.rv["closure"]
            if pfd.body.key.startswith("bin:"):
                ck = "bin:" + ck
            if ck == closure_key:
                return pfd, ins
    return pfd, None


def data_atoms(an, key, seed_locals, depth=0):
    """atoms of the data slice of the seeds, following closure captures into the parents"""
    fd = an.fd(key)
    sl = fd.slice(seed_locals=seed_locals)
    atoms = set(sl["atoms"])
    if fd.body.is_closure and depth < 6:
        caps = [int(a.split(":")[1]) for a in atoms if a.startswith("capture:")]
        if caps:
            pfd, agg = closure_agg(an, fd.body.parent, key)
            if agg is not None:
                seeds = set()
                for k in caps:
                    if k < len(agg.ops):
                        seeds |= pfd.operand_uses(agg.ops[k])
                atoms |= data_atoms(an, fd.body.parent, seeds, depth + 1)
    return atoms


def guard_of(an, key, ins, lhs_locals):
    """a recognised guard for the arithmetic instruction, or None"""
    fd = an.fd(key)
    # (a) a controlling comparison on the same quantity
    ctrl = fd.slice(seed_blocks=[ins.bb])
    lhs_sl = fd.slice(seed_locals=lhs_locals)
    lhs_named = {l for l in lhs_sl["locals"] if l > fd.body.argc}
    lhs_atoms = data_atoms(an, key, lhs_locals)
    for sw in ctrl["switches"]:
        cs = fd.slice(seed_locals=fd.operand_uses(sw.ops[0]))
        catoms = data_atoms(an, key, fd.operand_uses(sw.ops[0]))
        has_cmp = bool(catoms & CMP_OPS) or any("is_empty" in a for a in catoms if a.startswith("call:"))
        if not has_cmp:
            continue
        if (catoms & SOURCES & lhs_atoms) or (cs["locals"] & lhs_named):
            return "controlling comparison at %s" % sw.line()
    # (b) position(..).unwrap() on the same collection, (d) an index into it, dominating the instruction
    for c in fd.body.calls():
        if not fd.cfg.instr_dominates(c, ins) or c is ins:
            continue
        if c.callee in UNWRAPS:
            at = data_atoms(an, key, fd.operand_uses(c.args[0]))
            if has_position(at) and at & SOURCES:
                return "position(..).unwrap() on the same collection at %s proves it non-empty" % c.line()
        if c.callee == INDEX:
            at = data_atoms(an, key, fd.operand_uses(c.args[0]))
            if at & SOURCES & lhs_atoms:
                return "indexing into the same collection at %s proves it non-empty" % c.line()
        if c.callee == PUSH and c.args and c.args[0].place is not None:
            if fd.bases(c.args[0].place.local) & lhs_sl["locals"]:
                return "push onto the same vector at %s proves it non-empty" % c.line()
    # (e) the instruction sits in a closure: every call of the closure in its parent is preceded by an unconditional
    #     index into the same collection (directly, or inside a sibling closure called before)
    if fd.body.is_closure and fd.body.parent:
        pfd = an.fd(fd.body.parent)
        if pfd is not None:
            calls = [c for c in pfd.body.calls() if c.callee == key]
            src = lhs_atoms & SOURCES

            def proves(c0):
                for c in pfd.body.calls():
                    if c is c0 or not pfd.cfg.instr_dominates(c, c0):
                        continue
                    if c.callee == INDEX and data_atoms(an, pfd.body.key, pfd.operand_uses(c.args[0])) & src:
                        return True
                    sk = c.callee or ""
                    if sk != key and sk in an.prog.bodies and an.prog.bodies[sk].is_closure and an.prog.bodies[sk].parent == fd.body.parent:
                        sfd = an.fd(sk)
                        rets = [i for i in sfd.body.instrs() if i.kind == "return"]
                        for ic in sfd.body.calls():
                            if ic.callee == INDEX and data_atoms(an, sk, sfd.operand_uses(ic.args[0])) & src \
                                    and all(sfd.cfg.instr_dominates(ic, r) for r in rets):
                                return True
                return False
            if calls and src and all(proves(c0) for c0 in calls):
                return "every call of this closure is preceded by an index into the same collection (which proves it non-empty)"
    return None


def sites(an, crates=("solution", "solver")):
    """all arithmetic instructions in scope: (key, instr, kind, const, guard)"""
    out = []
    for key, body in an.prog.bodies.items():
        if body.crate not in crates or getattr(body, "test_unit", False):
            continue
        if "::verify_consistency" in key or key.startswith("<") and "fmt::" in key:
            continue
        fd = None
        for ins in body.instrs():
            if ins.kind == "call" and ins.callee in SAFE_SUBS and ins.args and ins.args[0].place is not None:
                fd = fd or an.fd(key)
                seeds = fd.operand_uses(ins.args[0])
                at = data_atoms(an, key, seeds)
                if at & SOURCES and (at & LEN_CALLS or has_position(at)):
                    c = ins.args[1].const_val() if len(ins.args) > 1 else None
                    out.append((key, ins, "sub", c, "%s cannot underflow" % ins.callee.split("::")[-1]))
                continue
            if ins.kind != "assign" or ins.rv_kind() != "binop":
                continue
            op = ins.rv["op"]
            if not ins.rv.get("aty", "").startswith("usize"):
                continue
            if op in ("Sub", "SubWithOverflow", "SubUnchecked"):
                side = ins.ops[0]
                other = ins.ops[1]
                kind = "sub"
            elif op in ("Rem", "Div"):
                side = ins.ops[1]
                other = ins.ops[0]
                kind = op.lower()
            else:
                continue
            if side.place is None:
                continue
            fd = fd or an.fd(key)
            seeds = fd.operand_uses(side)
            at = data_atoms(an, key, seeds)
            if not (at & SOURCES):
                continue
            if kind == "sub" and not (at & LEN_CALLS) and not has_position(at):
                continue
            c = other.const_val() if kind == "sub" else None
            g = guard_of(an, key, ins, seeds)
            out.append((key, ins, kind, c, g))
    return out
