"""Intra-procedural program dependence graph over exported MIR, with bottom-up
inter-procedural summaries.

Approximations (documented in DESIGN.md §3/§4):
 * data dependence is flow-insensitive per MIR local (MIR temporaries are almost all
   single-assignment); one pseudo-local P_i stands for the pointee of reference
   parameter i;
 * points-to is field-insensitive and carries a mutability flag; a call to a function
   without an analysed body writes every mutably reachable argument base and its result
   depends on all arguments; a call to an analysed function uses its summary;
 * control dependence comes from the post-dominator tree of the CFG without unwind
   edges; compiler-inserted Assert terminators are treated as fall-through.
The slice is therefore an over-approximation of true dependence.
"""
from collections import defaultdict, deque

from .facts import Place, Operand

PRIM_NO_REF = ("prim",)


def pointee(i):
    """pseudo-local for the pointee of reference parameter i"""
    return -i


def capture(k):
    """pseudo-local for captured variable k of a closure body"""
    return -(1000 + k)


class Def:
    __slots__ = ("instr", "target", "uses", "atoms", "kind", "info")

    def __init__(self, instr, target, uses, atoms, kind, info=None):
        self.instr = instr
        self.target = target
        self.uses = uses
        self.atoms = atoms
        self.kind = kind
        self.info = info or {}

    def __repr__(self):
        return "Def(%s _%s <- %s @%s)" % (self.kind, self.target, sorted(self.uses),
                                           self.instr.id if self.instr else None)


class CFG:
    def __init__(self, body):
        self.body = body
        n = len(body.blocks)
        self.n = n
        self.succ = [[] for _ in range(n)]
        self.live = [False] * n
        for bi, blk in enumerate(body.blocks):
            if body.cleanup[bi]:
                continue
            t = blk[-1]
            s = []
            if t.kind == "goto":
                s = [t.target]
            elif t.kind == "switch":
                s = [b for _, b in t.targets] + [t.otherwise]
            elif t.kind in ("call",):
                s = [t.target] if t.target is not None else []
            elif t.kind in ("drop", "assert"):
                s = [t.target]
            s2 = []
            for x in s:
                if x is None or body.cleanup[x] or x in s2:
                    continue
                if body.blocks[x][-1].kind == "unreachable":
                    # `otherwise -> unreachable` arms of exhaustive matches are not paths
                    continue
                s2.append(x)
            self.succ[bi] = s2
        # reachability from entry
        seen = {0}
        dq = deque([0])
        while dq:
            b = dq.popleft()
            for s in self.succ[b]:
                if s not in seen:
                    seen.add(s)
                    dq.append(s)
        for b in seen:
            self.live[b] = True
        self.pred = [[] for _ in range(n)]
        for b in range(n):
            if not self.live[b]:
                self.succ[b] = []
                continue
            for s in self.succ[b]:
                self.pred[s].append(b)
        self._dom = None
        self._pdom = None
        self._cdep = None

    @staticmethod
    def _idoms(n, entry, succ, pred, nodes):
        # Cooper-Harvey-Kennedy
        order = []
        seen = set()
        stack = [(entry, iter(succ[entry]))]
        seen.add(entry)
        while stack:
            v, it = stack[-1]
            adv = False
            for w in it:
                if w not in seen:
                    seen.add(w)
                    stack.append((w, iter(succ[w])))
                    adv = True
                    break
            if not adv:
                order.append(v)
                stack.pop()
        rpo = list(reversed(order))
        num = {v: i for i, v in enumerate(rpo)}
        idom = {entry: entry}
        changed = True
        while changed:
            changed = False
            for v in rpo[1:]:
                ps = [p for p in pred[v] if p in idom]
                if not ps:
                    continue
                new = ps[0]
                for p in ps[1:]:
                    a, b = p, new
                    while a != b:
                        while num[a] > num[b]:
                            a = idom[a]
                        while num[b] > num[a]:
                            b = idom[b]
                    new = a
                if idom.get(v) != new:
                    idom[v] = new
                    changed = True
        return idom

    def dom(self):
        if self._dom is None:
            self._dom = self._idoms(self.n, 0, self.succ, self.pred, None)
        return self._dom

    def dominates(self, a, b):
        """block a dominates block b"""
        idom = self.dom()
        if b not in idom:
            return False
        x = b
        while True:
            if x == a:
                return True
            if idom[x] == x:
                return False
            x = idom[x]

    def postdominates(self, a, b):
        """every path from block b to an exit passes through block a"""
        ip = self.pdom()
        x = b
        guard = 0
        while x in ip and guard < 100000:
            guard += 1
            if x == a:
                return True
            nx = ip[x]
            if nx == x:
                return False
            x = nx
        return x == a

    def instr_dominates(self, i1, i2):
        if i1.bb == i2.bb:
            return i1.idx <= i2.idx
        return self.dominates(i1.bb, i2.bb)

    def pdom(self):
        if self._pdom is None:
            n = self.n
            EXIT = n
            succ = [list(s) for s in self.succ] + [[]]
            for b in range(n):
                if self.live[b] and not succ[b]:
                    succ[b] = [EXIT]
            # blocks that cannot reach EXIT (endless loops): connect them
            rpred = [[] for _ in range(n + 1)]
            for b in range(n + 1):
                for s in succ[b]:
                    rpred[s].append(b)
            seen = {EXIT}
            dq = deque([EXIT])
            while dq:
                v = dq.popleft()
                for p in rpred[v]:
                    if p not in seen:
                        seen.add(p)
                        dq.append(p)
            for b in range(n):
                if self.live[b] and b not in seen:
                    succ[b].append(EXIT)
                    rpred[EXIT].append(b)
            # post-dominators = dominators of reverse graph
            self._pdom = self._idoms(n + 1, EXIT, rpred, succ, None)
            self._psucc = succ
        return self._pdom

    def cdep(self):
        """block -> set of blocks whose terminator it is control dependent on"""
        if self._cdep is None:
            ipdom = self.pdom()
            cd = defaultdict(set)
            for a in range(self.n):
                if not self.live[a]:
                    continue
                ss = self._psucc[a]
                if len(ss) < 2:
                    continue
                for b in ss:
                    if b == self.n:
                        continue
                    x = b
                    stop = ipdom.get(a)
                    guard = 0
                    while x != stop and x != self.n and guard < 10000:
                        cd[x].add(a)
                        x = ipdom.get(x, self.n)
                        guard += 1
            self._cdep = cd
        return self._cdep

    def reachable_from(self, b0):
        seen = {b0}
        dq = deque([b0])
        while dq:
            b = dq.popleft()
            for s in self.succ[b]:
                if s not in seen:
                    seen.add(s)
                    dq.append(s)
        return seen


def tk_is_prim(tk):
    k = tk.get("k")
    if k == "prim":
        return True
    if k == "tuple" and not tk.get("a"):
        return True
    return False


def tk_is_ref(tk):
    return tk.get("k") == "ref"


def tk_is_mut_ref(tk):
    return tk.get("k") == "ref" and tk.get("m")


class Summary:
    __slots__ = ("channels",)

    def __init__(self):
        self.channels = {}  # name -> (frozenset params, frozenset atoms)

    def __eq__(self, o):
        return isinstance(o, Summary) and self.channels == o.channels

    def all_atoms(self):
        s = set()
        for p, a in self.channels.values():
            s |= a
        return s


class FnDep:
    """dependence facts of one body, given summaries of callees"""

    def __init__(self, prog, body, summaries):
        self.prog = prog
        self.body = body
        self.summaries = summaries
        self.cfg = CFG(body)
        self.defs = defaultdict(list)      # local -> [Def]
        self.switches = {}                  # bb -> (instr, uses)
        self.call_defs = {}                 # instr id -> [Def] created by that call
        self.callees = set()
        self._build_pointsto()
        self._build_defs()

    # ---------------------------------------------------------------- points-to
    def _param_is_ref(self, i):
        return tk_is_ref(self.body.local_tk(i))

    def holds_ref(self, l):
        """can local l hold a borrow of another local (compiler's type flags)"""
        if l < 0 or l >= len(self.body.locals):
            return True
        return bool(self.body.locals[l].get("hr"))

    def _build_pointsto(self):
        body = self.body
        pt = defaultdict(set)
        for i in range(1, body.argc + 1):
            tk = body.local_tk(i)
            if tk_is_ref(tk):
                pt[i].add((pointee(i), bool(tk.get("m"))))
            elif self.holds_ref(i):
                # by-value aggregates may hold references (closure envs, iterators)
                pt[i].add((pointee(i), True))
        constraints = []  # (dst, srcs:list, kind, extra)
        for ins in body.instrs():
            if ins.kind == "assign":
                d = ins.place.local
                if ins.place.first_deref():
                    continue
                rk = ins.rv_kind()
                if rk in ("ref", "rawptr"):
                    p = ins.ref_place()
                    m = bool(ins.rv.get("m"))
                    if p.has_deref():
                        constraints.append((d, [p.local], "reborrow", m))
                    else:
                        constraints.append((d, [p.local], "addr", m))
                else:
                    if not self.holds_ref(d) and body.local_tk(d).get("k") != "ptr":
                        continue
                    srcs = [o.local for o in ins.ops if o.place is not None]
                    dp = ins.discr_place()
                    if dp is not None:
                        continue
                    if srcs:
                        constraints.append((d, srcs, "copy", None))
            elif ins.kind == "call" and ins.dest is not None:
                d = ins.dest.local
                tk = body.local_tk(d)
                if ins.dest.is_local and (tk.get("k") == "ptr" or (tk.get("k") == "adt" and tk.get("p") == "alloc::boxed::Box")):
                    # a fresh heap allocation: writes through pointers derived from it define the owner local
                    pt[d].add((d, True))
                if not self.holds_ref(d):
                    continue
                srcs = [o.local for o in ins.args if o.place is not None]
                if srcs:
                    constraints.append((d, srcs, "copy", None))
        changed = True
        rounds = 0
        while changed and rounds < 50:
            changed = False
            rounds += 1
            for d, srcs, kind, m in constraints:
                before = len(pt[d])
                if kind == "addr":
                    pt[d].add((srcs[0], m))
                elif kind == "reborrow":
                    for (b, bm) in list(pt[srcs[0]]):
                        pt[d].add((b, bm and m))
                else:
                    for s in srcs:
                        pt[d] |= pt[s]
                if len(pt[d]) != before:
                    changed = True
        self.pt = pt

    def bases(self, l, mutable_only=False):
        return {b for (b, m) in self.pt.get(l, ()) if (m or not mutable_only)}

    # ---------------------------------------------------------------- reads
    def capture_index(self, place):
        """k if the place reads captured variable k of this closure's environment"""
        if not self.body.is_closure or place.local != 1:
            return None
        for p in place.proj:
            if p["k"] == "deref":
                continue
            if p["k"] == "field" and "closure" in p:
                return p["i"]
            return None
        return None

    def place_uses(self, place):
        u = {place.local}
        k = self.capture_index(place)
        if k is not None:
            u.add(capture(k))
        if place.has_deref():
            u |= self.bases(place.local)
        for il in place.index_locals():
            u.add(il)
        return u

    @staticmethod
    def place_atoms(place):
        at = set()
        for (adt, v, n, i) in place.fields():
            if adt and n is not None:
                at.add("field:%s.%s" % (adt, n))
        return at

    def operand_uses(self, op):
        if op.place is not None:
            return self.place_uses(op.place)
        return set()

    def operand_atoms(self, op):
        if op.place is not None:
            return self.place_atoms(op.place)
        at = set()
        if op.const is not None:
            f = op.fn()
            if f is not None:
                at.add("fnref:%s" % f["callee"])
            elif "val" in op.const:
                at.add("const:%s" % op.const["val"])
        return at

    # ---------------------------------------------------------------- defs
    def _add_def(self, d):
        self.defs[d.target].append(d)

    def _write_targets(self, place):
        """locals defined by an assignment to `place`"""
        if place.has_deref():
            return self.bases(place.local, mutable_only=True)
        return {place.local}

    def _build_defs(self):
        body = self.body
        prog = self.prog
        for i in range(1, body.argc + 1):
            self._add_def(Def(None, i, set(), {"param:%d" % i}, "param", {"param": i}))
            self._add_def(Def(None, pointee(i), set(), {"param:%d" % i}, "param", {"param": i}))
        if body.is_closure:
            ncap = 0
            for ins in body.instrs(include_cleanup=True):
                for pl in ([ins.place] if ins.place is not None else []) + [o.place for o in ins.ops + ins.args if o.place is not None] \
                        + ([ins.ref_place()] if ins.ref_place() is not None else []):
                    k = self.capture_index(pl)
                    if k is not None:
                        ncap = max(ncap, k + 1)
            for k in range(ncap):
                self._add_def(Def(None, capture(k), set(), {"capture:%d" % k}, "param", {"capture": k}))
        for ins in body.instrs():
            if ins.kind == "assign":
                rk = ins.rv_kind()
                uses = set()
                atoms = set()
                info = {"rk": rk}
                if rk in ("ref", "rawptr"):
                    p = ins.ref_place()
                    uses |= self.place_uses(p)
                    if not p.has_deref():
                        uses.add(p.local)
                    atoms |= self.place_atoms(p)
                elif rk == "discr":
                    p = ins.discr_place()
                    uses |= self.place_uses(p)
                    atoms |= self.place_atoms(p)
                    # which enum is matched on (for `match node { Node::StartDepot(_) => .. }` instead of is_start_depot())
                    tk = body.local_tk(p.local)
                    if all(pp["k"] == "deref" for pp in p.proj):
                        while tk.get("k") == "ref":
                            tk = tk.get("t", {})
                        if tk.get("k") == "adt":
                            atoms.add("discr:%s" % tk.get("p"))
                else:
                    for o in ins.ops:
                        uses |= self.operand_uses(o)
                        atoms |= self.operand_atoms(o)
                    if rk == "binop":
                        atoms.add("op:%s" % ins.rv["op"])
                    elif rk == "agg":
                        ak = ins.rv.get("ak")
                        if ak == "adt":
                            atoms.add("agg:%s::%s" % (ins.rv["adt"], ins.rv["v"]))
                        elif ak == "closure":
                            ck = ins.rv["closure"]
                            if body.key.startswith("bin:"):
                                ck = "bin:" + ck
                            info["closure"] = ck
                            s = self.summaries.get(ck)
                            self.callees.add(ck)
                            if s is not None:
                                atoms |= {a for a in s.all_atoms() if not a.startswith("param:")}
                            atoms.add("closure:%s" % ck)
                # partial write: index locals / projections on the target side
                for il in ins.place.index_locals():
                    uses.add(il)
                if ins.place.has_deref():
                    uses.add(ins.place.local)
                wf = ins.place.field_path()
                if wf:
                    info["wfield"] = wf
                    for (adt, v, n, i) in ins.place.fields():
                        if adt and n is not None:
                            atoms.add("write:%s.%s" % (adt, n))
                kind = "assign" if not ins.place.has_deref() else "deref-write"
                for t in self._write_targets(ins.place):
                    self._add_def(Def(ins, t, uses, atoms, kind, info))
            elif ins.kind == "setdiscr":
                for t in self._write_targets(ins.place):
                    self._add_def(Def(ins, t, set(), set(), "assign", {"rk": "setdiscr"}))
            elif ins.kind == "call":
                self._call_defs(ins)
            elif ins.kind == "switch":
                o = ins.ops[0]
                self.switches[ins.bb] = (ins, self.operand_uses(o))

    def _callee_summary(self, ins):
        ck = ins.callee
        if ck is None:
            return None, None
        if self.body.key.startswith("bin:") and ("bin:" + ck) in self.summaries:
            ck = "bin:" + ck
        cb = self.prog.bodies.get(ck)
        if cb is None or cb.is_closure:
            return ck, None
        return ck, self.summaries.get(ck)

    def _call_defs(self, ins):
        body = self.body
        ck, summ = self._callee_summary(ins)
        created = []
        arg_uses = []
        for o in ins.args:
            u = self.operand_uses(o)
            if o.place is not None:
                # a reference argument lets the callee read what it points to
                u |= self.bases(o.place.local)
            arg_uses.append(u)
        arg_atoms = set()
        for o in ins.args:
            arg_atoms |= self.operand_atoms(o)
        callee_name = ck if ck is not None else "<indirect>"
        base_atoms = {"call:%s" % callee_name}
        if ins.decl and ins.decl != ck:
            base_atoms.add("decl:%s" % ins.decl)
        if ck is not None:
            self.callees.add(ck)
        func_uses = self.operand_uses(ins.func)
        if summ is not None and len(ins.args) == self.prog.bodies[ck].argc:
            # analysed callee
            ch = summ.channels.get("ret", (frozenset(), frozenset()))
            uses = set(func_uses)
            for p in ch[0]:
                if 1 <= p <= len(arg_uses):
                    uses |= arg_uses[p - 1]
            atoms = set(base_atoms) | {a for a in ch[1] if not a.startswith("param:")} | arg_atoms
            dch = summ.channels.get("dec")
            if dch is not None:
                atoms |= {a for a in dch[1] if not a.startswith("param:")}
            info = {"callee": ck, "analysed": True, "ret_params": sorted(ch[0])}
            if ins.dest is not None:
                for t in self._write_targets(ins.dest):
                    d = Def(ins, t, uses | ({ins.dest.local} if ins.dest.has_deref() else set()),
                            atoms, "call-dest", info)
                    self._add_def(d)
                    created.append(d)
            for name, (ps, ats) in summ.channels.items():
                if not name.startswith("mut:"):
                    continue
                pi = int(name[4:])
                if not (1 <= pi <= len(ins.args)):
                    continue
                o = ins.args[pi - 1]
                if o.place is None:
                    continue
                targets = self.bases(o.place.local, mutable_only=True)
                uses2 = set(func_uses)
                for p in ps:
                    if 1 <= p <= len(arg_uses):
                        uses2 |= arg_uses[p - 1]
                atoms2 = set(base_atoms) | {a for a in ats if not a.startswith("param:")}
                atoms2.add("callmut:%s#%d" % (ck, pi))
                for t in targets:
                    d = Def(ins, t, uses2, atoms2, "call-mut",
                            {"callee": ck, "analysed": True, "param": pi})
                    self._add_def(d)
                    created.append(d)
        else:
            uses = set(func_uses)
            for u in arg_uses:
                uses |= u
            atoms = set(base_atoms) | arg_atoms
            # closures handed to the callee: their bodies run as part of this call
            info = {"callee": ck, "analysed": False}
            if ins.dest is not None:
                for t in self._write_targets(ins.dest):
                    d = Def(ins, t, uses | ({ins.dest.local} if ins.dest.has_deref() else set()),
                            atoms, "call-dest", info)
                    self._add_def(d)
                    created.append(d)
            for ai, o in enumerate(ins.args):
                if o.place is None:
                    continue
                for t in self.bases(o.place.local, mutable_only=True):
                    d = Def(ins, t, uses, atoms, "call-mut",
                            {"callee": ck, "analysed": False, "param": ai + 1})
                    self._add_def(d)
                    created.append(d)
        self.call_defs[ins.id] = created

    # ---------------------------------------------------------------- slicing
    def slice(self, seed_locals=(), seed_blocks=(), seed_defs=(), control=True):
        """backward slice; returns dict(locals, defs, switches, atoms).
        control=False: pure data dependence (no control dependence edges at all)"""
        cd = self.cfg.cdep()
        seen_l = set()
        seen_b = set()
        seen_d = []
        seen_dset = set()
        switches = []
        atoms = set()
        wl_l = list(seed_locals)
        wl_b = list(seed_blocks)
        wl_d = list(seed_defs)
        while wl_l or wl_b or wl_d:
            while wl_d:
                d = wl_d.pop()
                if id(d) in seen_dset:
                    continue
                seen_dset.add(id(d))
                seen_d.append(d)
                atoms |= d.atoms
                for u in d.uses:
                    if u not in seen_l:
                        wl_l.append(u)
                if control and d.instr is not None and d.instr.bb not in seen_b:
                    wl_b.append(d.instr.bb)
            while wl_l:
                l = wl_l.pop()
                if l in seen_l:
                    continue
                seen_l.add(l)
                for d in self.defs.get(l, ()):
                    if id(d) not in seen_dset:
                        wl_d.append(d)
            while wl_b:
                b = wl_b.pop()
                if b in seen_b:
                    continue
                seen_b.add(b)
                for a in cd.get(b, ()):
                    sw = self.switches.get(a)
                    if sw is not None:
                        ins, uses = sw
                        switches.append(ins)
                        for u in uses:
                            if u not in seen_l:
                                wl_l.append(u)
                    if a not in seen_b:
                        wl_b.append(a)
        return {"locals": seen_l, "defs": seen_d, "switches": switches, "atoms": atoms,
                "blocks": seen_b}

    def slice_operand(self, ins, op):
        """slice of one operand at an instruction (data deps of the operand, plus the
        control dependence of the instruction)"""
        return self.slice(seed_locals=self.operand_uses(op) | (
            self.bases(op.place.local) if op.place is not None else set()),
            seed_blocks=[ins.bb])

    def slice_operand_data(self, ins, op):
        """data dependence of the operand, with the control dependence of the defs involved"""
        return self.slice(seed_locals=self.operand_uses(op) | (
            self.bases(op.place.local) if op.place is not None else set()))

    def slice_operand_pure(self, ins, op):
        """pure data dependence of the operand (no control dependence)"""
        return self.slice(seed_locals=self.operand_uses(op) | (
            self.bases(op.place.local) if op.place is not None else set()), control=False)

    def ret_slice(self):
        return self.slice(seed_locals=[0])

    def decision_slice(self, local=0):
        """conditions that control the assignments to `local` (default: return place),
        closed under dependence.  A result that is delegated to an analysed callee
        (`_0 = helper(..)`, `helper(..)?`) inherits that callee's decision."""
        blocks = set()
        extra_atoms = set()
        extra_seeds = set()
        for d in self.defs.get(local, ()):
            if d.instr is not None:
                blocks.add(d.instr.bb)
                if d.kind == "call-dest" and d.info.get("analysed"):
                    s = self.summaries.get(d.info.get("callee"))
                    if s is not None and "dec" in s.channels:
                        ps, ats = s.channels["dec"]
                        extra_atoms |= {a for a in ats if not a.startswith("param:")}
                        for pi in ps:
                            if 1 <= pi <= len(d.instr.args):
                                extra_seeds |= self.operand_uses(d.instr.args[pi - 1])
        # also the return blocks themselves (which return is taken)
        for ins in self.body.instrs():
            if ins.kind == "return":
                blocks.add(ins.bb)
        r = self.slice(seed_blocks=blocks, seed_locals=extra_seeds)
        r["atoms"] = set(r["atoms"]) | extra_atoms
        return r

    def summary(self):
        s = Summary()
        r = self.ret_slice()
        s.channels["ret"] = (frozenset(int(a[6:]) for a in r["atoms"] if a.startswith("param:")),
                             frozenset(r["atoms"]))
        dsl = self.decision_slice()
        s.channels["dec"] = (frozenset(int(a[6:]) for a in dsl["atoms"] if a.startswith("param:")),
                             frozenset(dsl["atoms"]))
        for i in range(1, self.body.argc + 1):
            ds = [d for d in self.defs.get(pointee(i), ()) if d.kind != "param"]
            if ds:
                r = self.slice(seed_defs=ds)
                s.channels["mut:%d" % i] = (
                    frozenset(int(a[6:]) for a in r["atoms"] if a.startswith("param:")),
                    frozenset(r["atoms"]))
        return s


class Analysis:
    """whole-program driver: summaries to a fixpoint, then per-function FnDep on demand"""

    def __init__(self, prog, max_rounds=12):
        self.prog = prog
        self.summaries = {}
        self.fd_cache = {}
        self.rounds = 0
        self._fixpoint(max_rounds)

    def _fixpoint(self, max_rounds):
        prog = self.prog
        keys = list(prog.bodies.keys())
        callers = defaultdict(set)
        dirty = set(keys)
        rounds = 0
        # closures first (their summaries feed the parents)
        keys.sort(key=lambda k: (-k.count("{"), k))
        while dirty and rounds < max_rounds:
            rounds += 1
            todo = [k for k in keys if k in dirty]
            dirty = set()
            for k in todo:
                fd = FnDep(prog, prog.bodies[k], self.summaries)
                for c in fd.callees:
                    callers[c].add(k)
                s = fd.summary()
                if self.summaries.get(k) != s:
                    self.summaries[k] = s
                    dirty |= callers.get(k, set())
                    # a function's own recursion
        self.rounds = rounds
        self.unconverged = len(dirty)

    def fd(self, key):
        if key not in self.fd_cache:
            b = self.prog.bodies.get(key)
            if b is None:
                return None
            self.fd_cache[key] = FnDep(self.prog, b, self.summaries)
        return self.fd_cache[key]


def explain(fd, seed_locals, atom, seed_blocks=()):
    """debug aid: one dependence chain from the seeds to a def carrying `atom`"""
    cd = fd.cfg.cdep()
    parent = {}
    dq = deque()
    for l in seed_locals:
        parent[("l", l)] = None
        dq.append(("l", l))
    for b in seed_blocks:
        parent[("b", b)] = None
        dq.append(("b", b))
    found = None
    while dq and found is None:
        n = dq.popleft()
        nxt = []
        if n[0] == "l":
            for i, d in enumerate(fd.defs.get(n[1], ())):
                nxt.append(("d", n[1], i))
        elif n[0] == "d":
            d = fd.defs[n[1]][n[2]]
            if atom in d.atoms:
                found = n
                break
            for u in d.uses:
                nxt.append(("l", u))
            if d.instr is not None:
                nxt.append(("b", d.instr.bb))
        elif n[0] == "b":
            for a in cd.get(n[1], ()):
                sw = fd.switches.get(a)
                if sw is not None:
                    for u in sw[1]:
                        nxt.append(("l", u))
                nxt.append(("b", a))
        for x in nxt:
            if x not in parent:
                parent[x] = n
                dq.append(x)
    chain = []
    n = found
    while n is not None:
        if n[0] == "d":
            d = fd.defs[n[1]][n[2]]
            chain.append("def %s of %s at %s [%s]" % (d.kind, fd.body.describe_local(n[1]) if n[1] >= 0 else "P%d" % -n[1],
                                                      d.instr.line() if d.instr else "-", d.info.get("callee", d.info.get("rk", ""))))
        elif n[0] == "l":
            chain.append("local %s" % (fd.body.describe_local(n[1]) if n[1] >= 0 else "P%d" % -n[1]))
        else:
            chain.append("ctrl bb%d" % n[1])
        n = parent[n]
    return list(reversed(chain))
