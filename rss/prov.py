"""Provenance classification of rebuild operands (rule templates T2, T3, T8).

For a value-type S (Schedule, Tour, Transition, TrainFormation) every function that
constructs an S is a *producer*.  For each constructed field we classify the operand:

  same(F)     an unmodified clone/copy of self.F
  changed(F)  a working copy of self.F with further definitions (assignments, &mut
              borrows handed to callees that write through them)
  fresh       anything else

The classification is syntactic on MIR defs (exact, no slicing), using the may-write
summaries only to decide whether an `&mut` argument is written by an analysed callee.
"""
from .facts import Place
from .dep import pointee

CLONE_DECL = "core::clone::Clone::clone"


def adt_of_tk(tk):
    if tk.get("k") == "adt":
        return tk.get("p")
    return None


def self_param_of(body, adt):
    """index of the first parameter of type &adt / &mut adt / adt"""
    for i in range(1, body.argc + 1):
        tk = body.local_tk(i)
        if tk.get("k") == "ref" and adt_of_tk(tk.get("t", {})) == adt:
            return i
    return None


def self_aliases(fd, self_param):
    """locals that are plain whole copies of the self parameter (after inlining a helper its `self` is such a copy)"""
    cache = getattr(fd, "_self_aliases", None)
    if cache is None:
        cache = {}
        fd._self_aliases = cache
    if self_param in cache:
        return cache[self_param]
    al = {self_param}
    changed = True
    while changed:
        changed = False
        for l, ds in fd.defs.items():
            if not isinstance(l, int) or l in al or l < 0:
                continue
            rs = [d for d in ds if d.kind != "param"]
            if len(rs) != 1 or rs[0].kind != "assign" or rs[0].instr is None or not rs[0].instr.place.is_local:
                continue
            i_ = rs[0].instr
            if i_.rv_kind() == "use" and i_.ops and i_.ops[0].place is not None and i_.ops[0].place.is_local \
                    and i_.ops[0].place.local in al:
                al.add(l)
                changed = True
            elif i_.rv_kind() == "ref":          # a reborrow  &*self
                rp = i_.ref_place()
                if rp is not None and rp.local in al and len(rp.proj) == 1 and rp.first_deref():
                    al.add(l)
                    changed = True
    cache[self_param] = al
    return al


def _single_real_def(fd, l):
    ds = [d for d in fd.defs.get(l, ()) if d.kind != "param"]
    return ds


def ref_origin(fd, l, self_param, depth=0):
    """if local l is (only) `&(*self).path` return the field path tuple (() for whole self)"""
    if depth > 6:
        return None
    ds = _single_real_def(fd, l)
    if l == self_param and not ds:
        return ()
    al = self_aliases(fd, self_param)
    if l in al:
        return ()
    if len(ds) != 1:
        return None
    d = ds[0]
    if d.kind != "assign" or d.instr is None:
        return None
    ins = d.instr
    if not ins.place.is_local:
        return None
    rk = ins.rv_kind()
    if rk == "ref":
        p = ins.ref_place()
        if p.local in al and p.first_deref():
            return p.field_path()
        if p.first_deref():
            base = ref_origin(fd, p.local, self_param, depth + 1)
            if base is not None:
                return tuple(base) + p.field_path()
        return None
    if rk == "use" and ins.ops and ins.ops[0].place is not None and ins.ops[0].place.is_local:
        return ref_origin(fd, ins.ops[0].place.local, self_param, depth + 1)
    return None


def origin_of_def(fd, d, self_param):
    """field path if this def copies/clones self.path, else None"""
    ins = d.instr
    if ins is None:
        return None
    if d.kind == "call-dest" and ins.decl == CLONE_DECL and ins.dest is not None and ins.dest.is_local:
        a = ins.args[0]
        if a.place is not None and a.place.is_local:
            return ref_origin(fd, a.place.local, self_param)
        return None
    if d.kind == "assign" and ins.place.is_local and ins.rv_kind() == "use":
        o = ins.ops[0]
        if o.place is not None:
            p = o.place
            if p.local in self_aliases(fd, self_param) and p.first_deref():
                return p.field_path()
    return None


class Cls:
    def __init__(self, kind, field=None, writes=(), local=None, via=()):
        self.kind = kind      # same | changed | fresh
        self.field = field    # tuple path into self
        self.writes = list(writes)
        self.local = local
        self.via = via

    def __repr__(self):
        if self.kind == "fresh":
            return "fresh"
        return "%s(%s)" % (self.kind, ".".join(str(x) for x in (self.field or ())))

    def short(self):
        return {"same": "S", "changed": "C", "fresh": "F"}[self.kind]


def _field_of_self_clone(fd, p, self_param):
    """place `T.f..` where T is (only) a clone / copy of the whole of self and is never written: the field path, else None
    (struct update syntax `Schedule { a, b, ..self.clone() }` moves the remaining fields out of such a temporary)"""
    if self_param is None or p.is_local or p.first_deref():
        return None
    ds = _single_real_def(fd, p.local)
    if len(ds) != 1:
        return None
    if origin_of_def(fd, ds[0], self_param) != ():
        return None
    fp = p.field_path()
    return fp if fp else None


def classify_local(fd, l, self_param, depth=0):
    if self_param is None:
        return Cls("fresh", local=l)
    ds = _single_real_def(fd, l)
    if not ds:
        return Cls("fresh", local=l)
    origins = []
    others = []
    for d in ds:
        o = origin_of_def(fd, d, self_param)
        if o is not None:
            origins.append((d, o))
        else:
            others.append(d)
    if len(origins) == 1 and origins[0][1] != ():
        if not others:
            return Cls("same", origins[0][1], local=l)
        return Cls("changed", origins[0][1], writes=others, local=l)
    if not origins and len(ds) == 1 and depth < 6:
        d = ds[0]
        ins = d.instr
        if d.kind == "assign" and ins.place.is_local and ins.rv_kind() == "use":
            o = ins.ops[0]
            if o.place is not None and o.place.is_local:
                return classify_local(fd, o.place.local, self_param, depth + 1)
            if o.place is not None:
                fp = _field_of_self_clone(fd, o.place, self_param)
                if fp:
                    return Cls("same", fp, local=l)
    return Cls("fresh", local=l, writes=ds)


def classify_operand(fd, op, self_param):
    if op.place is None:
        return Cls("fresh")
    p = op.place
    if p.is_local:
        return classify_local(fd, p.local, self_param)
    if self_param is not None and p.local in self_aliases(fd, self_param) and p.first_deref():
        return Cls("same", p.field_path())
    fp = _field_of_self_clone(fd, p, self_param)
    if fp:
        return Cls("same", fp)
    return Cls("fresh")


def ctor_map(prog, key, adt):
    """for a positional constructor function: field name -> parameter index"""
    b = prog.bodies.get(key)
    if b is None:
        return None
    # single-assignment move/copy chains  _t = move _p
    copies = {}
    ndefs = {}
    for ins in b.instrs():
        if ins.kind == "assign" and ins.place.is_local:
            ndefs[ins.place.local] = ndefs.get(ins.place.local, 0) + 1
            if ins.rv_kind() == "use" and ins.ops[0].place is not None and ins.ops[0].place.is_local:
                copies[ins.place.local] = ins.ops[0].place.local
        elif ins.kind == "call" and ins.dest is not None:
            ndefs[ins.dest.local] = ndefs.get(ins.dest.local, 0) + 2

    def root(l, n=0):
        while l in copies and ndefs.get(l, 0) == 1 and n < 10:
            l = copies[l]
            n += 1
        return l
    for ins in b.instrs():
        if ins.kind == "assign" and ins.rv_kind() == "agg" and ins.rv.get("ak") == "adt" \
                and ins.rv.get("adt") == adt:
            m = {}
            for name, o in zip(ins.rv["fields"], ins.ops):
                m[name] = None
                if o.place is not None and o.place.is_local:
                    r = root(o.place.local)
                    if 1 <= r <= b.argc and ndefs.get(r, 0) == 0:
                        m[name] = r
            return m
    return None


class Site:
    def __init__(self, fn, instr, kind, fields, self_param):
        self.fn = fn
        self.instr = instr
        self.kind = kind          # ctor-call | aggregate | clone-store
        self.fields = fields      # field name -> Cls
        self.self_param = self_param

    def row(self):
        return {k: v.short() for k, v in self.fields.items()}


def adt_fields(prog, adt):
    a = prog.adts.get(adt)
    if a is None:
        return None
    return [f["name"] for f in a["variants"][0]["fields"]]


def producer_sites(an, adt, ctors=(), skip=()):
    """all construction sites of `adt` in the program (excluding the constructor
    functions themselves, derived Clone, and `skip`)"""
    prog = an.prog
    fields = adt_fields(prog, adt)
    sites = []
    cmaps = {c: ctor_map(prog, c, adt) for c in ctors}
    for key, body in prog.bodies.items():
        if key in ctors or key in skip:
            continue
        if key.startswith("<") and key.endswith("as core::clone::Clone>::clone"):
            continue
        if body.crate_file.endswith(".test.json") or getattr(body, "test_unit", False):
            continue
        fd = None
        sp = self_param_of(body, adt)
        for ins in body.instrs():
            if ins.kind == "call" and ins.callee in cmaps and cmaps[ins.callee] is not None:
                fd = fd or an.fd(key)
                cm = cmaps[ins.callee]
                fs = {}
                for name in fields:
                    pi = cm.get(name)
                    if pi is None or pi > len(ins.args):
                        fs[name] = Cls("fresh")
                    else:
                        fs[name] = classify_operand(fd, ins.args[pi - 1], sp)
                sites.append(Site(key, ins, "ctor-call", fs, sp))
            elif ins.kind == "assign" and ins.rv_kind() == "agg" and ins.rv.get("ak") == "adt" \
                    and ins.rv.get("adt") == adt:
                fd = fd or an.fd(key)
                fs = {}
                for name, o in zip(ins.rv["fields"], ins.ops):
                    fs[name] = classify_operand(fd, o, sp)
                sites.append(Site(key, ins, "aggregate", fs, sp))
        # clone of whole self followed by field stores
        if sp is not None:
            fd = fd or an.fd(key)
            for l in range(len(body.locals)):
                if adt_of_tk(body.local_tk(l)) != adt:
                    continue
                ds = _single_real_def(fd, l)
                whole = [d for d in ds if origin_of_def(fd, d, sp) == ()]
                if len(whole) != 1:
                    continue
                rest = [d for d in ds if d is not whole[0]]
                if not rest:
                    continue
                if any((d.kind == "assign" and not d.info.get("wfield")) or d.kind == "call-dest"
                       for d in rest):
                    continue  # a merge of alternatives, not a clone that is then edited
                fs = {name: Cls("same", (name,)) for name in fields}
                unknown = False
                for d in rest:
                    wf = d.info.get("wfield")
                    if d.kind == "assign" and wf:
                        if wf[0] in fs:
                            fs[wf[0]] = Cls("changed", (wf[0],), writes=[d])
                    else:
                        unknown = True
                if unknown:
                    fs = {name: Cls("changed", (name,), writes=rest) for name in fields}
                sites.append(Site(key, whole[0].instr, "clone-store", fs, sp))
    return sites


def lost_updates(an, key, adt):
    """working copies of self.F that are written but never reach the return value"""
    fd = an.fd(key)
    body = fd.body
    sp = self_param_of(body, adt)
    if sp is None:
        return []
    rs = fd.ret_slice()["locals"]
    out = []
    for l in range(body.argc + 1, len(body.locals)):
        c = classify_local(fd, l, sp)
        if c.kind == "changed" and l not in rs:
            out.append((l, c))
    return out
