"""A second view of the program in which helpers that no rule knows by name are transparent.

`build_view(prog, known)` returns a Program-like object whose bodies have every call to an *unknown* workspace function
(not a closure, not recursive, not mentioned in any rule) replaced by the callee's MIR (locals and blocks renumbered,
arguments bound by assignments, `return` turned into an assignment to the call's destination and a jump to its
target).  Tuple temporaries that only carry several results out of an inlined helper are split into one local per
component, so that `let (a, b) = helper(..)` does not merge the provenance of `a` and `b`.

The view is used only as a cross-check of reports (engine.two_views): an obligation reported on the program as
written is dropped when the same rules find nothing to report once unknown helpers are inlined.  Inlining preserves
behaviour, so a rule that holds on the inlined body holds for the function; this is what makes `extract a helper`,
`merge two helpers` and `return a tuple from a helper` refactorings invisible to the rules."""
import copy
import re

from .facts import Body, Program

MAX_BLOCKS = 400
MAX_DEPTH = 3
WORKSPACE = ("model", "solution", "solver", "server", "internal")


def _shift(j, lb, bb_map=None):
    """rewrite locals (+lb) in a JSON fragment (places and index projections)"""
    if isinstance(j, dict):
        if "l" in j and "p" in j and isinstance(j["p"], list):
            out = {"l": j["l"] + lb, "p": [_shift(p, lb) for p in j["p"]]}
            for k, v in j.items():
                if k not in ("l", "p"):
                    out[k] = v
            return out
        if j.get("k") == "index" and "l" in j:
            out = dict(j)
            out["l"] = j["l"] + lb
            return out
        if "tk" in j and "ty" in j and "l" not in j:
            return j
        return {k: (_shift(v, lb) if k not in ("tk", "ty", "argtys", "fn", "sp") else v) for k, v in j.items()}
    if isinstance(j, list):
        return [_shift(x, lb) for x in j]
    return j


def _retarget(t, bo):
    t = dict(t)
    k = t["k"]
    if "t" in t and t["t"] is not None and k in ("goto", "call", "drop", "assert"):
        t["t"] = int(t["t"]) + bo
    if k == "switch":
        t["targets"] = [[v, int(b) + bo] for v, b in t["targets"]]
        t["otherwise"] = int(t["otherwise"]) + bo
    return t


class View:
    def __init__(self, prog, known_names):
        self.prog = prog
        self.known = known_names
        self.raw = {k: b.j for k, b in prog.bodies.items()}
        self.memo = {}
        self.inlined_callees = set()
        self.stack = []

    def short(self, key):
        return re.sub(r"\{closure#\d+\}", "", key).rstrip(":").split("::")[-1]

    def candidate(self, key):
        b = self.prog.bodies.get(key)
        if b is None or b.is_closure or b.external or getattr(b, "test_unit", False):
            return False
        if b.crate not in WORKSPACE:
            return False
        if self.short(key) in self.known:
            return False
        if len(b.blocks) > MAX_BLOCKS:
            return False
        if "as " in key and ">::" in key:      # trait impl methods stay calls (Clone, Ord, Swap::apply, ...)
            return False
        return True

    def body_json(self, key, depth=0):
        """JSON of body `key` with its unknown callees inlined"""
        if key in self.memo:
            return self.memo[key]
        j = self.raw[key]
        if key in self.stack or depth > MAX_DEPTH:
            return j
        self.stack.append(key)
        out = {k: v for k, v in j.items() if k not in ("locals", "blocks")}
        locals_ = list(j["locals"])
        blocks = [{"s": list(b["s"]), "t": b["t"], "cleanup": b["cleanup"]} for b in j["blocks"]]
        changed = False
        bi = 0
        n0 = len(blocks)
        while bi < n0:
            t = blocks[bi]["t"]
            ck = None
            if t["k"] == "call" and not blocks[bi]["cleanup"]:
                f = t.get("func", {}).get("fn") if isinstance(t.get("func"), dict) else None
                ck = f.get("callee") if f else None
                if key.startswith("bin:") and ck and ("bin:" + ck) in self.raw and ck not in self.raw:
                    ck = "bin:" + ck
            if ck and ck in self.raw and ck != key and ck not in self.stack and self.candidate(ck):
                cj = self.body_json(ck, depth + 1)
                if len(t.get("args", [])) == cj["argc"] and len(blocks) + len(cj["blocks"]) < 4000:
                    lb, bo = len(locals_), len(blocks)
                    for l in cj["locals"]:
                        l2 = dict(l)
                        l2["inl"] = ck
                        locals_.append(l2)
                    for i, a in enumerate(t["args"]):
                        blocks[bi]["s"].append({"k": "assign", "pl": {"l": lb + 1 + i, "p": []}, "rv": {"k": "use", "op": a},
                                                "sp": t.get("sp"), "exp": False, "inl_arg": True})
                    for cb in cj["blocks"]:
                        nb = {"s": [_shift(s, lb) for s in cb["s"]], "cleanup": cb["cleanup"]}
                        ct = cb["t"]
                        if ct["k"] == "return":
                            if "dest" in t:
                                nb["s"].append({"k": "assign", "pl": t["dest"], "rv": {"k": "use", "op": {"k": "move", "pl": {"l": lb, "p": []}}},
                                                "sp": t.get("sp"), "exp": False, "inl_ret": True})
                            nb["t"] = {"k": "goto", "t": t["t"]} if t.get("t") is not None else {"k": "unreachable"}
                        else:
                            nb["t"] = _retarget(_shift(ct, lb), bo)
                        blocks.append(nb)
                    blocks[bi]["t"] = {"k": "goto", "t": bo}
                    self.inlined_callees.add(ck)
                    changed = True
            bi += 1
        self.stack.pop()
        if not changed:
            out = scalarise_tuples(j)        # tuple temporaries are split in every body of this view
            self.memo[key] = out
            return out
        out["locals"] = locals_
        out["blocks"] = blocks
        out = scalarise_tuples(out)
        self.memo[key] = out
        return out


def _places(j, acc):
    """collect every place dict in a JSON fragment"""
    if isinstance(j, dict):
        if "l" in j and "p" in j and isinstance(j["p"], list):
            acc.append(j)
            for p in j["p"]:
                if isinstance(p, dict) and p.get("k") == "index":
                    pass
            return
        for k, v in j.items():
            if k not in ("tk", "ty", "argtys", "fn", "sp"):
                _places(v, acc)
    elif isinstance(j, list):
        for x in j:
            _places(x, acc)


STRUCTS = {}      # adt path -> list of field type dicts, for plain structs of the workspace (set by build_view)


def _comp_types(tk):
    if tk.get("k") == "tuple" and tk.get("a"):
        return tk["a"]
    if tk.get("k") == "adt" and tk.get("p") in STRUCTS:
        return STRUCTS[tk["p"]]
    return None


def scalarise_tuples(j):
    """split tuple-typed locals (and locals of small plain structs of the workspace) that are only built by one aggregate / copied
    whole between such locals / read and written by first-level field projections into one local per component"""
    locals_ = j["locals"]
    n = len(locals_)
    cand = {i for i, l in enumerate(locals_) if _comp_types(l.get("tk", {})) and i > j["argc"]}
    if not cand:
        return j
    # a local stays a candidate only if every occurrence is of an allowed form
    links = []      # whole copies between candidates (dst, src)

    def drop(i):
        cand.discard(i)

    for b in j["blocks"]:
        for s in b["s"] + [b["t"]]:
            k = s["k"]
            if k == "assign":
                pl, rv = s["pl"], s["rv"]
                rk = rv["k"]
                whole_dst = not pl["p"]
                if rk == "agg" and whole_dst and (rv.get("ak") == "tuple" or (rv.get("ak") == "adt" and rv.get("adt") in STRUCTS
                                                                              and len(rv.get("ops", [])) == len(STRUCTS[rv.get("adt")]))):
                    acc = []
                    _places(rv["ops"], acc)
                    for p in acc:
                        if p["l"] in cand and not (p["p"] and p["p"][0]["k"] == "field"):
                            drop(p["l"])
                    continue
                if rk == "use" and whole_dst and "pl" in rv["op"] and not rv["op"]["pl"]["p"]:
                    a, b_ = pl["l"], rv["op"]["pl"]["l"]
                    if a in cand or b_ in cand:
                        links.append((a, b_))
                    continue
                acc = []
                _places(s, acc)
                for p in acc:
                    if p["l"] in cand and not (p["p"] and p["p"][0]["k"] == "field"):
                        drop(p["l"])
            else:
                acc = []
                _places(s, acc)
                for p in acc:
                    if p["l"] in cand and not (p["p"] and p["p"][0]["k"] == "field"):
                        drop(p["l"])
                    if k in ("call",) and "dest" in s and s["dest"]["l"] in cand:
                        drop(s["dest"]["l"])
    changed = True
    while changed:
        changed = False
        for a, b_ in links:
            if (a in cand) != (b_ in cand):
                cand.discard(a)
                cand.discard(b_)
                changed = True
    if not cand:
        return j
    comp = {}
    new_locals = list(locals_)
    for i in sorted(cand):
        tys = _comp_types(locals_[i]["tk"])
        comp[i] = []
        for ci, tk in enumerate(tys):
            nl = {"ty": tk.get("p") or tk.get("n") or tk.get("k"), "tk": tk, "name": (locals_[i].get("name") or "_%d" % i) + ".%d" % ci}
            if locals_[i].get("hr") or tk.get("k") in ("ref", "ptr"):
                nl["hr"] = True
            if locals_[i].get("mut"):
                nl["mut"] = True
            comp[i].append(len(new_locals))
            new_locals.append(nl)

    def rw(x):
        if isinstance(x, dict):
            if "l" in x and "p" in x and isinstance(x["p"], list):
                if x["l"] in cand and x["p"] and x["p"][0]["k"] == "field":
                    out = dict(x)
                    out["l"] = comp[x["l"]][x["p"][0]["i"]]
                    out["p"] = [rw(p) for p in x["p"][1:]]
                    return out
                out = dict(x)
                out["p"] = [rw(p) for p in x["p"]]
                return out
            return {k: (rw(v) if k not in ("tk", "ty", "argtys", "fn", "sp") else v) for k, v in x.items()}
        if isinstance(x, list):
            return [rw(y) for y in x]
        return x

    blocks = []
    for b in j["blocks"]:
        ns = []
        for s in b["s"]:
            if s["k"] == "assign" and not s["pl"]["p"] and s["pl"]["l"] in cand:
                rv = s["rv"]
                if rv["k"] == "agg" and (rv.get("ak") == "tuple" or rv.get("adt") in STRUCTS):
                    for ci, op in enumerate(rv["ops"]):
                        ns.append({"k": "assign", "pl": {"l": comp[s["pl"]["l"]][ci], "p": []}, "rv": {"k": "use", "op": rw(op)},
                                   "sp": s.get("sp"), "exp": s.get("exp", False)})
                    continue
                if rv["k"] == "use" and "pl" in rv["op"] and rv["op"]["pl"]["l"] in cand:
                    src = rv["op"]["pl"]["l"]
                    for ci in range(len(comp[src])):
                        ns.append({"k": "assign", "pl": {"l": comp[s["pl"]["l"]][ci], "p": []},
                                   "rv": {"k": "use", "op": {"k": rv["op"]["k"], "pl": {"l": comp[src][ci], "p": []}}},
                                   "sp": s.get("sp"), "exp": s.get("exp", False)})
                    continue
            ns.append(rw(s))
        blocks.append({"s": ns, "t": rw(b["t"]), "cleanup": b["cleanup"]})
    out = dict(j)
    out["locals"] = new_locals
    out["blocks"] = blocks
    return out


def known_names(rules_dir, extra_files=()):
    """every identifier that appears as (part of) a string literal in the rule sources: a function whose name is among them
    is known to some rule and is never made transparent"""
    import glob
    import os
    names = set()
    files = glob.glob(os.path.join(rules_dir, "*.py")) + list(extra_files)
    for f in files:
        src = open(f).read()
        for m in re.finditer(r"[\"']([^\"'\n]*)[\"']", src):
            for w in re.findall(r"[A-Za-z_][A-Za-z_0-9]*", m.group(1)):
                names.add(w)
    return names


def build_view(prog, known):
    """a Program whose bodies have unknown helpers inlined; helpers that were inlined and are private are removed"""
    STRUCTS.clear()
    for path, a in prog.adts.items():
        vs = a.get("variants") or []
        # only structs no rule knows by name (a helper's private result type); the domain types stay whole
        if a.get("crate") in WORKSPACE and a.get("kind", "struct") in ("struct", "Struct", None) and len(vs) == 1 \
                and 1 <= len(vs[0].get("fields", [])) <= 6 and path.split("::")[-1] not in known:
            STRUCTS[path] = [f.get("tk", {"k": "other"}) for f in vs[0]["fields"]]
    v = View(prog, known)
    p2 = copy.copy(prog)
    p2.bodies = {}
    new_json = {}
    for k in prog.bodies:
        b = prog.bodies[k]
        if b.external or getattr(b, "test_unit", False) or not any(
                k.startswith(w + "::") or k.startswith("<" + w + "::") or k.startswith("bin:" + w) or k.startswith("bin:<" + w) for w in WORKSPACE):
            new_json[k] = None
            continue
        new_json[k] = v.body_json(k)
    removed = set()
    for k in v.inlined_callees:
        sg = prog.sigs.get(k)
        if sg is not None and not sg.get("pub"):
            removed.add(k)
    for k, b in prog.bodies.items():
        if k in removed:
            continue
        nj = new_json.get(k)
        if nj is None or nj is b.j:
            p2.bodies[k] = b
        else:
            nb = Body(nj, b.crate_file)
            nb.key = b.key
            nb.parent = b.parent
            nb.root = b.root
            nb.test_unit = getattr(b, "test_unit", False)
            p2.bodies[k] = nb
    # closures created inside an inlined helper now belong to the functions the helper was inlined into
    p2.closures_of = {}
    for k, b in p2.bodies.items():
        if b.parent:
            p2.closures_of.setdefault(b.parent, []).append(k)
    for k, b in p2.bodies.items():
        if b.is_closure:
            continue
        seen = set(p2.closures_of.get(k, []))
        for ins in b.instrs():
            if ins.kind == "assign" and ins.rv_kind() == "agg" and ins.rv.get("ak") == "closure":
                ck = ins.rv.get("closure")
                if ck and ck in p2.bodies and ck not in seen:
                    p2.closures_of.setdefault(k, []).append(ck)
                    seen.add(ck)
    # name-based owner of a closure -> the function that now contains its creation site (for helpers that were removed)
    p2.closure_owner = {}
    for k, cs in p2.closures_of.items():
        for ck in cs:
            base = re.sub(r"(::\{closure#\d+\})+$", "", ck)
            if base in removed and k in p2.bodies and not p2.bodies[k].is_closure:
                p2.closure_owner.setdefault(ck, k)
    for ck in list(p2.closure_owner):     # nested closures follow their parents
        for k2 in p2.bodies:
            if k2.startswith(ck + "::{closure#"):
                p2.closure_owner.setdefault(k2, p2.closure_owner[ck])
    p2.inlined = sorted(v.inlined_callees)
    p2.removed = sorted(removed)
    return p2
