"""Helpers shared by the rule files."""
import re

from .dep import pointee

# canonical keys of the workspace ADTs and a few functions used everywhere
SCHEDULE = "solution::schedule::Schedule"
TOUR = "solution::tour::Tour"
TRANSITION = "solution::transition::Transition"
TCYCLE = "solution::transition::transition_cycle::TransitionCycle"
TRAINF = "solution::train_formation::TrainFormation"
PATH = "solution::path::Path"
NETWORK = "model::network::Network"
NODE = "model::network::nodes::Node"


def S(m):
    return "%s::%s" % (SCHEDULE, m)


def T(m):
    return "%s::%s" % (TOUR, m)


def TR(m):
    return "%s::%s" % (TRANSITION, m)


def N(m):
    return "%s::%s" % (NETWORK, m)


def ND(m):
    return "%s::%s" % (NODE, m)


def call(k):
    return "call:%s" % k


def field(adt, name):
    return "field:%s.%s" % (adt, name)


def calls_to(fd, callee, targ=None):
    """call instructions in this body whose resolved callee is `callee`"""
    out = []
    for ins in fd.body.calls():
        if ins.callee == callee or (callee.endswith("*") and ins.callee and ins.callee.startswith(callee[:-1])):
            if targ is None or any(targ in t for t in ins.targs):
                out.append(ins)
    return out


def calls_matching(fd, pred):
    return [ins for ins in fd.body.calls() if ins.callee and pred(ins)]


def slice_has_call_def(sl, callee, targ=None):
    """is a *call site of this function* to `callee` among the defs of the slice"""
    for d in sl["defs"]:
        ins = d.instr
        if ins is not None and ins.kind == "call" and ins.callee == callee:
            if targ is None or any(targ in t for t in ins.targs):
                return ins
    return None


def missing_atoms(atoms, required):
    return [r for r in required if r not in atoms]


def fmt_missing(miss):
    return ", ".join(m.replace("call:", "").replace("field:", "field ") for m in miss)


def atoms_of(fd, kind="ret"):
    if kind == "ret":
        return fd.ret_slice()["atoms"]
    if kind == "dec":
        return fd.decision_slice()["atoms"]
    raise ValueError(kind)


def arg_slice(fd, ins, i, control=True):
    if control:
        return fd.slice_operand(ins, ins.args[i])
    return fd.slice_operand_data(ins, ins.args[i])


def must_depend(ctx, oid, rule, key, sink, required, text, exempt=()):
    """T1: the sink ('ret' | 'dec') of function `key` has every required atom in its slice"""
    o, fd = ctx.require_fn(oid, rule, key, text)
    if fd is None:
        return o
    at = atoms_of(fd, sink)
    miss = missing_atoms(at, required)
    ctx.call_sites += len(list(fd.body.calls()))
    return ctx.decide(o, not miss,
                      ok_detail="all %d required sources in the %s slice" % (len(required), sink),
                      bad_detail="%s slice of %s lacks: %s" % (sink, key.split("::")[-1], fmt_missing(miss)),
                      sample={"required": [r for r in required], "slice_size": len(at)})


def callers_of(prog, callee, include_tests=False):
    out = []
    for k, b in prog.bodies.items():
        if getattr(b, "test_unit", False) and not include_tests:
            continue
        for ins in b.calls():
            if ins.callee == callee:
                out.append((k, ins))
    return out


def fn_of_closure(key):
    """strip ::{closure#n} suffixes"""
    return re.sub(r"(::\{closure#\d+\})+$", "", key)


def aggregates_of(prog, adt, include_tests=False):
    """(fn key, instr) of every Aggregate construction of `adt`"""
    out = []
    for k, b in prog.bodies.items():
        if getattr(b, "test_unit", False) and not include_tests:
            continue
        for ins in b.instrs():
            if ins.kind == "assign" and ins.rv_kind() == "agg" and ins.rv.get("ak") == "adt" \
                    and ins.rv.get("adt") == adt:
                out.append((k, ins))
    return out


def const_of_operand(fd, op, depth=0):
    """follow single-def copy chains to a scalar constant / constant string"""
    if op.const is not None:
        return op.const
    if depth > 6 or op.place is None or not op.place.is_local:
        return None
    ds = [d for d in fd.defs.get(op.place.local, ()) if d.kind != "param"]
    if len(ds) != 1 or ds[0].kind != "assign":
        return None
    ins = ds[0].instr
    if ins.rv_kind() in ("use", "cast") and ins.ops:
        return const_of_operand(fd, ins.ops[0], depth + 1)
    return None


def is_none_const(c):
    return c is not None and "None" in (c.get("s") or "")


def is_none_operand(fd, op, depth=0):
    """operand is the constant Option::None (constant operand or a None aggregate)"""
    c = const_of_operand(fd, op)
    if is_none_const(c):
        return True
    if depth > 6 or op.place is None or not op.place.is_local:
        return False
    ds = [d for d in fd.defs.get(op.place.local, ()) if d.kind != "param"]
    if len(ds) != 1 or ds[0].kind != "assign":
        return False
    ins = ds[0].instr
    if ins.rv_kind() == "agg" and ins.rv.get("adt") == "core::option::Option" and ins.rv.get("v") == "None":
        return True
    if ins.rv_kind() in ("use", "cast") and ins.ops:
        return is_none_operand(fd, ins.ops[0], depth + 1)
    return False


def direct_call_source(fd, op, depth=0):
    """callee whose result this operand is (through plain moves/copies only), else None"""
    if depth > 6 or op.place is None or not op.place.is_local:
        return None
    ds = [d for d in fd.defs.get(op.place.local, ()) if d.kind != "param"]
    if len(ds) != 1:
        return None
    d = ds[0]
    if d.kind == "call-dest":
        return d.instr.callee
    if d.kind == "assign" and d.instr.rv_kind() == "use" and d.instr.ops:
        return direct_call_source(fd, d.instr.ops[0], depth + 1)
    return None


def direct_def_instr(fd, op, depth=0):
    """the instruction that directly defines this operand (through plain moves/copies only)"""
    if depth > 6 or op.place is None or not op.place.is_local:
        return None
    ds = [d for d in fd.defs.get(op.place.local, ()) if d.kind != "param"]
    if len(ds) != 1:
        return None
    d = ds[0]
    if d.kind == "assign" and d.instr.rv_kind() == "use" and d.instr.ops and d.instr.ops[0].place is not None:
        r = direct_def_instr(fd, d.instr.ops[0], depth + 1)
        return r if r is not None else d.instr
    return d.instr
