"""Helpers shared by the rule files."""
import re

from .dep import pointee

# canonical keys of the workspace ADTs and a few functions used everywhere
SCHEDULE = "solution::schedule::Schedule"
TOUR = "solution::tour::Tour"
TRANSITION = "solution::transition::Transition"
TCYCLE = "solution::transition::transition_cycle::TransitionCycle"
TRAINF = "solution::train_formation::TrainFormation"
PATH = "solution::path::Path"
NETWORK = "model::network::Network"
NODE = "model::network::nodes::Node"


def S(m):
    return "%s::%s" % (SCHEDULE, m)


def T(m):
    return "%s::%s" % (TOUR, m)


def TR(m):
    return "%s::%s" % (TRANSITION, m)


def N(m):
    return "%s::%s" % (NETWORK, m)


def ND(m):
    return "%s::%s" % (NODE, m)


def call(k):
    return "call:%s" % k


def field(adt, name):
    return "field:%s.%s" % (adt, name)


def calls_to(fd, callee, targ=None):
    """call instructions in this body whose resolved callee is `callee`"""
    out = []
    for ins in fd.body.calls():
        if ins.callee == callee or (callee.endswith("*") and ins.callee and ins.callee.startswith(callee[:-1])):
            if targ is None or any(targ in t for t in ins.targs):
                out.append(ins)
    return out


def calls_matching(fd, pred):
    return [ins for ins in fd.body.calls() if ins.callee and pred(ins)]


def slice_has_call_def(sl, callee, targ=None):
    """is a *call site of this function* to `callee` among the defs of the slice"""
    for d in sl["defs"]:
        ins = d.instr
        if ins is not None and ins.kind == "call" and ins.callee == callee:
            if targ is None or any(targ in t for t in ins.targs):
                return ins
    return None


_CUR = {"prog": None}


def set_current_program(prog):
    _CUR["prog"] = prog


def _gone_private_helper(r):
    """a required `call:<private helper>` whose helper no longer exists at all (inlined, split or renamed by a refactor):
    the requirement is void - the leaf atoms required next to it still have to be there"""
    from .rules.private_anchors import PRIVATE_ANCHORS
    prog = _CUR["prog"]
    if prog is None or not r.startswith("call:"):
        return False
    k = r[5:]
    return k in PRIVATE_ANCHORS and k not in prog.bodies


def missing_atoms(atoms, required):
    """required entries that are absent; an entry may be a tuple of alternatives (any one of them suffices)"""
    out = []
    for r in required:
        if isinstance(r, (tuple, list)):
            if not any(x in atoms or _gone_private_helper(x) for x in r):
                out.append(tuple(r))
        elif r not in atoms and not _gone_private_helper(r):
            out.append(r)
    return out


def fmt_missing(miss):
    def one(m):
        if isinstance(m, tuple):
            return "(" + " or ".join(one(x) for x in m) + ")"
        return m.replace("call:", "").replace("field:", "field ").replace("discr:", "match on ")
    return ", ".join(one(m) for m in miss)


def atoms_of(fd, kind="ret"):
    if kind == "ret":
        return fd.ret_slice()["atoms"]
    if kind == "dec":
        return fd.decision_slice()["atoms"]
    raise ValueError(kind)


def arg_slice(fd, ins, i, control=True):
    if control:
        return fd.slice_operand(ins, ins.args[i])
    return fd.slice_operand_data(ins, ins.args[i])


def must_depend(ctx, oid, rule, key, sink, required, text, exempt=()):
    """T1: the sink ('ret' | 'dec') of function `key` has every required atom in its slice"""
    o, fd = ctx.require_fn(oid, rule, key, text)
    if fd is None:
        return o
    at = atoms_of(fd, sink)
    miss = missing_atoms(at, required)
    ctx.call_sites += len(list(fd.body.calls()))
    return ctx.decide(o, not miss,
                      ok_detail="all %d required sources in the %s slice" % (len(required), sink),
                      bad_detail="%s slice of %s lacks: %s" % (sink, key.split("::")[-1], fmt_missing(miss)),
                      sample={"required": [r for r in required], "slice_size": len(at)})


def callers_of(prog, callee, include_tests=False):
    out = []
    for k, b in prog.bodies.items():
        if getattr(b, "test_unit", False) and not include_tests:
            continue
        for ins in b.calls():
            if ins.callee == callee:
                out.append((k, ins))
    return out


def fn_of_closure(key):
    """the function a closure belongs to (strip ::{closure#n} suffixes; in the inlined view a closure of a helper that
    was made transparent belongs to the function the helper was inlined into)"""
    own = getattr(_CUR.get("prog"), "closure_owner", None)
    if own and key in own:
        return own[key]
    return re.sub(r"(::\{closure#\d+\})+$", "", key)


def aggregates_of(prog, adt, include_tests=False):
    """(fn key, instr) of every Aggregate construction of `adt`"""
    out = []
    for k, b in prog.bodies.items():
        if getattr(b, "test_unit", False) and not include_tests:
            continue
        for ins in b.instrs():
            if ins.kind == "assign" and ins.rv_kind() == "agg" and ins.rv.get("ak") == "adt" \
                    and ins.rv.get("adt") == adt:
                out.append((k, ins))
    return out


def const_of_operand(fd, op, depth=0):
    """follow single-def copy chains to a scalar constant / constant string"""
    if op.const is not None:
        return op.const
    if depth > 6 or op.place is None or not op.place.is_local:
        return None
    ds = [d for d in fd.defs.get(op.place.local, ()) if d.kind != "param"]
    if len(ds) != 1 or ds[0].kind != "assign":
        return None
    ins = ds[0].instr
    if ins.rv_kind() in ("use", "cast") and ins.ops:
        return const_of_operand(fd, ins.ops[0], depth + 1)
    if ins.rv_kind() == "ref":
        p = ins.ref_place()
        if all(x["k"] == "deref" for x in p.proj):
            from .facts import Operand
            return const_of_operand(fd, Operand({"k": "copy", "pl": {"l": p.local, "p": []}}), depth + 1)
    return None


def is_none_const(c):
    return c is not None and "None" in (c.get("s") or "")


def is_none_operand(fd, op, depth=0):
    """operand is the constant Option::None (constant operand or a None aggregate)"""
    c = const_of_operand(fd, op)
    if is_none_const(c):
        return True
    if depth > 6 or op.place is None or not op.place.is_local:
        return False
    ds = [d for d in fd.defs.get(op.place.local, ()) if d.kind != "param"]
    if len(ds) != 1 or ds[0].kind != "assign":
        return False
    ins = ds[0].instr
    if ins.rv_kind() == "agg" and ins.rv.get("adt") == "core::option::Option" and ins.rv.get("v") == "None":
        return True
    if ins.rv_kind() in ("use", "cast") and ins.ops:
        return is_none_operand(fd, ins.ops[0], depth + 1)
    return False


def direct_call_source(fd, op, depth=0):
    """callee whose result this operand is (through plain moves/copies only), else None"""
    if depth > 6 or op.place is None or not op.place.is_local:
        return None
    ds = [d for d in fd.defs.get(op.place.local, ()) if d.kind != "param"]
    if len(ds) != 1:
        return None
    d = ds[0]
    if d.kind == "call-dest":
        return d.instr.callee
    if d.kind == "assign" and d.instr.rv_kind() == "use" and d.instr.ops:
        return direct_call_source(fd, d.instr.ops[0], depth + 1)
    return None


def direct_def_instr(fd, op, depth=0):
    """the instruction that directly defines this operand (through plain moves/copies only)"""
    if depth > 6 or op.place is None or not op.place.is_local:
        return None
    ds = [d for d in fd.defs.get(op.place.local, ()) if d.kind != "param"]
    if len(ds) != 1:
        return None
    d = ds[0]
    if d.kind == "assign" and d.instr.rv_kind() == "use" and d.instr.ops and d.instr.ops[0].place is not None:
        r = direct_def_instr(fd, d.instr.ops[0], depth + 1)
        return r if r is not None else d.instr
    return d.instr


def has_method(atoms, decl):
    """a call whose resolved callee or trait declaration is `decl`"""
    return ("call:%s" % decl) in atoms or ("decl:%s" % decl) in atoms


def aggregate_fields(ctx, rid, key, adt, table, rule="T1", must_exist=True, families=True):
    """field provenance of every Aggregate of `adt` built in `key` (and its closures):
    table maps field name -> list of required atoms in the operand's pure data slice"""
    short = adt.split("::")[-1]
    found = 0
    keys = ctx.prog.family(key) if families else [key]
    for k in keys:
        fd = ctx.fd(k)
        if fd is None:
            continue
        for ins in fd.body.instrs():
            if ins.kind == "assign" and ins.rv_kind() == "agg" and ins.rv.get("adt") == adt:
                found += 1
                for name, op in zip(ins.rv["fields"], ins.ops):
                    if name not in table:
                        continue
                    o = ctx.ob("%s.%s.%s" % (rid, short, name), rule, k, "%s.%s is filled from %s" % (
                        short, name, ", ".join(a.split("::")[-1] for a in table[name])))
                    o.loc = ins.line()
                    at = deep_operand_atoms(ctx.an, fd, ins, op)
                    miss = [r for r in table[name] if not (r in at or (r.startswith("call:") and ("decl:" + r[5:]) in at))]
                    ctx.decide(o, not miss, "", "%s.%s built in %s does not derive from %s" % (
                        short, name, k.split("::")[-1], fmt_missing(miss)), loc=ins.line())
    if must_exist and not found:
        o = ctx.ob("%s.%s.site" % (rid, short), "T8", key, "construction of %s is found in %s" % (short, key.split("::")[-1]))
        if ctx.prog.bodies.get(key) is None:
            ctx.anchor_gone(o, key)
        else:
            ctx.bad(o, "no %s is constructed in %s" % (short, key))
    return found


def condition_switches(fd, sw, depth=0):
    """the switch `sw` together with the switches that compute its condition when that is a bool local assembled by
    short-circuit `&&` / `||` (assigned in several blocks that all flow into sw's block)"""
    out = [sw]
    if depth > 3 or not sw.ops or sw.ops[0].place is None:
        return out
    l = sw.ops[0].place.local
    seen_l = set()
    for _ in range(4):      # through plain copies
        ds = [d for d in fd.defs.get(l, ()) if d.kind != "param"]
        if len(ds) == 1 and ds[0].kind == "assign" and ds[0].instr is not None and ds[0].instr.rv_kind() == "use" \
                and ds[0].instr.ops and ds[0].instr.ops[0].place is not None and l not in seen_l:
            seen_l.add(l)
            l = ds[0].instr.ops[0].place.local
        else:
            break
    ds = [d for d in fd.defs.get(l, ()) if d.kind != "param" and d.instr is not None]
    if len(ds) < 2:
        return out
    cd = fd.cfg.cdep()
    anc, wl = set(), [d.instr.bb for d in ds]
    while wl:
        b = wl.pop()
        for a in cd.get(b, ()):
            if a not in anc and a != sw.bb and fd.cfg.postdominates(sw.bb, a):
                anc.add(a)
                wl.append(a)
    for a in sorted(anc):
        if a in fd.switches:
            for s2 in condition_switches(fd, fd.switches[a][0], depth + 1):
                if s2 not in out:
                    out.append(s2)
    return out


def controlling_sources(fd, ins):
    """for every switch the instruction is (transitively) control dependent on: the call whose result is switched on
    (through discriminant reads, copies and negations), or a description of the condition"""
    out = []
    cd = fd.cfg.cdep()
    anc = []
    seen = set()
    wl = [ins.bb]
    while wl:
        b = wl.pop()
        for a in cd.get(b, ()):
            if a not in seen:
                seen.add(a)
                anc.append(a)
                wl.append(a)
    sws = []
    for a in anc:
        if a not in fd.switches:
            continue
        for s2 in condition_switches(fd, fd.switches[a][0]):
            if s2 not in sws:
                sws.append(s2)
    for sw in sws:
        op = sw.ops[0]
        d = direct_def_instr(fd, op)
        guard = 0
        while d is not None and d.kind == "assign" and guard < 8:
            guard += 1
            if d.rv_kind() == "unop" and d.ops:
                d = direct_def_instr(fd, d.ops[0])
            elif d.rv_kind() == "discr":
                p = d.discr_place()
                ds = [x for x in fd.defs.get(p.local, ()) if x.kind != "param"]
                d = ds[0].instr if len(ds) == 1 else None
            elif d.rv_kind() == "use" and d.ops and d.ops[0].place is not None:
                nd = direct_def_instr(fd, d.ops[0])
                if nd is None or nd is d:
                    break
                d = nd
            else:
                break
        if d is not None and d.kind == "call":
            out.append((sw, d.callee, d))
        else:
            out.append((sw, None, d))
    return out


def _has(at, r):
    return r in at or (r.startswith("call:") and ("decl:" + r[5:]) in at) or _gone_private_helper(r)


def call_arg_provenance(ctx, rid, key, callee, table, rule="T1", families=True, which="all"):
    """positional provenance of the arguments of every call to `callee` in `key` (and its closures).
    table: arg index -> (label, required atoms, forbidden atoms)"""
    found = 0
    for k in (ctx.prog.family(key) if families else [key]):
        fd = ctx.fd(k)
        if fd is None:
            continue
        for ins in calls_to(fd, callee):
            found += 1
            for ai, (label, req, forb) in table.items():
                oid = "%s.%s.arg-%s" % (rid, callee.split("::")[-1], label) + ("" if found == 1 else "#%d" % found)
                o = ctx.ob(oid, rule, k, "%s(.. %s ..) is fed from %s" % (callee.split("::")[-1], label,
                                                                       ", ".join(x.split("::")[-1] for x in req) or "-"))
                o.loc = ins.line()
                if ai >= len(ins.args):
                    ctx.bad(o, "call has only %d arguments" % len(ins.args))
                    continue
                at = deep_operand_atoms(ctx.an, fd, ins, ins.args[ai])
                miss = [r for r in req if not _has(at, r)]
                bad = [r for r in forb if _has(at, r)]
                msg = []
                if miss:
                    msg.append("does not derive from %s" % fmt_missing(miss))
                if bad:
                    msg.append("derives from %s (a different input field)" % fmt_missing(bad))
                ctx.decide(o, not miss and not bad, "", "argument `%s` of %s at %s %s" % (label, callee.split("::")[-1], ins.line(), " and ".join(msg)),
                           loc=ins.line())
    if not found:
        o = ctx.ob("%s.%s.site" % (rid, callee.split("::")[-1]), "T8", key, "a call to %s is found in %s" % (callee.split("::")[-1], key.split("::")[-1]))
        if ctx.prog.bodies.get(key) is None:
            ctx.anchor_gone(o, key)
        else:
            ctx.bad(o, "no call to %s in %s" % (callee, key))
    return found


def positional_ctor(ctx, oid, key, adt, expected, rule="T7"):
    """the constructor function stores parameter k in the field it is named for"""
    from . import prov
    o = ctx.ob(oid, rule, key, "%s stores each parameter in the corresponding field of %s" % (key.split("::")[-1], adt.split("::")[-1]))
    if ctx.prog.bodies.get(key) is None:
        ctx.anchor_gone(o, key)
        return
    ctx.functions.add(key)
    cm = prov.ctor_map(ctx.prog, key, adt)
    if cm is None:
        ctx.bad(o, "no construction of %s in %s" % (adt, key))
        return
    bad = {f: (cm.get(f), p) for f, p in expected.items() if cm.get(f) != p}
    ctx.decide(o, not bad, "fields <- parameters: %s" % cm,
               "field/parameter mapping differs: %s" % ", ".join("%s <- parameter %s (expected %s)" % (f, g, e) for f, (g, e) in bad.items()))


def getter(ctx, oid, key, required, forbidden=(), text=None, rule="T1"):
    o, fd = ctx.require_fn(oid, rule, key, text or "%s returns %s" % (key.split("::")[-1], ", ".join(r.split(".")[-1] for r in required)))
    if fd is None:
        return
    at = fd.slice(seed_locals=[0], control=False)["atoms"]
    miss = [r for r in required if not _has(at, r)]
    bad = [r for r in forbidden if _has(at, r)]
    msg = []
    if miss:
        msg.append("does not read %s" % fmt_missing(miss))
    if bad:
        msg.append("reads %s" % fmt_missing(bad))
    ctx.decide(o, not miss and not bad, "", "%s %s" % (key.split("::")[-1], " and ".join(msg)))


def root_local(fd, l, depth=0):
    """follow single-definition move/copy chains back to the local that was originally defined"""
    while depth < 10:
        ds = [d for d in fd.defs.get(l, ()) if d.kind != "param"]
        if len(ds) != 1 or ds[0].kind != "assign" or ds[0].instr.rv_kind() != "use":
            return l
        op = ds[0].instr.ops[0]
        if op.place is None or not op.place.is_local:
            return l
        l = op.place.local
        depth += 1
    return l


NARROWING = ("::filter", "::filter_map", "::skip", "::take", "::skip_while", "::take_while", "::step_by", "::skip_any", "::take_any",
             "::skip_any_while", "::take_any_while", "::nth", "::rev_skip", "::map_while")


def narrowing_calls(fd, ins, argi, stop_at=()):
    """iterator adaptors that drop elements among the *direct* call chain feeding operand argi of ins
    (method-chain receivers only: x.a().b().c()), stopping at calls to `stop_at`"""
    out = []
    cur = direct_def_instr(fd, ins.args[argi])
    guard = 0
    while cur is not None and cur.kind == "call" and guard < 20:
        guard += 1
        name = cur.callee or ""
        if name in stop_at:
            break
        if any(name.endswith(n) for n in NARROWING) or any((cur.decl or "").endswith(n) for n in NARROWING):
            out.append(cur)
        if not cur.args:
            break
        cur = direct_def_instr(fd, cur.args[0])
    return out


def _closure_site(an, closure_key):
    """(parent FnDep, aggregate instr building the closure, calls in the parent that receive it)"""
    body = an.prog.bodies.get(closure_key)
    if body is None or not body.parent:
        return None, None, []
    pfd = an.fd(body.parent)
    if pfd is None:
        return None, None, []
    agg = None
    for ins in pfd.body.instrs():
        if ins.kind == "assign" and ins.rv_kind() == "agg" and ins.rv.get("ak") == "closure":
            ck = ins.rv["closure"]
            if pfd.body.key.startswith("bin:"):
                ck = "bin:" + ck
            if ck == closure_key:
                agg = ins
    users = []
    if agg is not None:
        for c in pfd.body.calls():
            for a in c.args:
                if a.place is not None and any(d.instr is agg for d in pfd.slice(seed_locals=pfd.operand_uses(a), control=False)["defs"]):
                    users.append(c)
                    break
    return pfd, agg, users


def deep_atoms(an, fd, seed_locals, depth=0, control=False):
    """pure data atoms of the seeds; inside a closure, captured variables are followed into the parent's operands and
    the closure's own parameters (the elements it is applied to) into the other operands of the call that receives
    the closure - so a loop body turned into `.map(|x| ..)` keeps its provenance"""
    sl = fd.slice(seed_locals=seed_locals, control=control)
    atoms = set(sl["atoms"])
    if not fd.body.is_closure or depth > 5:
        return atoms
    caps = sorted(int(a.split(":")[1]) for a in atoms if a.startswith("capture:"))
    params = sorted(int(a.split(":")[1]) for a in atoms if a.startswith("param:") and int(a.split(":")[1]) >= 2)
    if not caps and not params:
        return atoms
    pfd, agg, users = _closure_site(an, fd.body.key)
    if pfd is None or agg is None:
        return atoms
    seeds = set()
    for k in caps:
        if k < len(agg.ops):
            seeds |= pfd.operand_uses(agg.ops[k])
            if agg.ops[k].place is not None:
                seeds |= pfd.bases(agg.ops[k].place.local)
    if params:
        for c in users:
            for a in c.args:
                if a.place is not None and not any(d.instr is agg for d in pfd.slice(seed_locals=pfd.operand_uses(a), control=False)["defs"]):
                    seeds |= pfd.operand_uses(a) | pfd.bases(a.place.local)
    if seeds:
        up = deep_atoms(an, pfd, seeds, depth + 1, control)
        # parameters of the parent are meaningful to the caller only if the parent is the anchored function itself
        atoms |= up
    return atoms


def deep_operand_atoms(an, fd, ins, op, control=False):
    seeds = fd.operand_uses(op) | (fd.bases(op.place.local) if op.place is not None else set())
    return deep_atoms(an, fd, seeds, control=control)


def direct_chain(fd, op, follow=None, limit=14, want_root=False, want_instrs=False):
    """callee names along the *direct* provenance of an operand (flow-sensitive in effect: only single-definition
    locals, references, dereferences and copies are followed; at a call the receiver is followed unless `follow`
    names another argument index for that callee)"""
    from .facts import Operand
    follow = follow or {}
    out = []
    cur = op
    n = 0
    while cur is not None and cur.place is not None and n < limit:
        n += 1
        l = cur.place.local
        ds = [d for d in fd.defs.get(l, ()) if d.kind != "param"]
        if len(ds) != 1:
            # an iterator that is advanced through `&mut` keeps its origin: ignore mutations through references
            ds = [d for d in ds if d.kind != "call-mut"]
        if len(ds) != 1:
            break
        i = ds[0].instr
        if i is None:
            break
        if i.kind == "call":
            out.append(i if want_instrs else (i.callee or "?"))
            ai = follow.get(i.callee, 0)
            cur = i.args[ai] if ai < len(i.args) else None
        elif i.kind == "assign" and i.rv_kind() in ("use", "cast") and i.ops:
            cur = i.ops[0]
        elif i.kind == "assign" and i.rv_kind() == "ref":
            p = i.ref_place()
            cur = Operand({"k": "copy", "pl": {"l": p.local, "p": []}})
        else:
            break
    if want_root:
        return out, (cur.place.local if cur is not None and cur.place is not None else None)
    return out


def hosts(ctx, key, depth=2):
    """the function `key` and the private helpers it delegates to (same crate, not `pub`, at most `depth` levels), each with
    its closures: the places where the work of `key` may live after a helper was extracted"""
    out, seen = [], set()
    wl = [(key, 0)]
    crate = key.split("::")[0].lstrip("<")
    while wl:
        k, d = wl.pop(0)
        if k in seen or k not in ctx.prog.bodies:
            continue
        seen.add(k)
        for k2 in ctx.prog.family(k):
            fd = ctx.fd(k2)
            if fd is None:
                continue
            out.append(fd)
            if d < depth:
                for c in fd.body.calls():
                    ck = c.callee or ""
                    sg = ctx.prog.sigs.get(ck)
                    if sg is not None and not sg.get("pub") and ck.split("::")[0].lstrip("<") == crate and ck not in seen:
                        wl.append((ck, d + 1))
    return out


NEXT_DECL = "core::iter::traits::iterator::Iterator::next"


def loops_of(fd):
    """(next-call instr, body entry block, loop-variable locals) for every `for` loop of the body"""
    out = []
    for c in fd.body.calls():
        if c.decl != NEXT_DECL and c.callee != NEXT_DECL:
            continue
        if c.target is None or c.bb not in fd.cfg.reachable_from(c.target):
            continue        # not in a cycle
        # the switch on the Option result: the Some edge enters the body
        sw = None
        b = c.target
        guard = 0
        while b is not None and guard < 4:
            guard += 1
            t = fd.body.blocks[b][-1]
            if t.kind == "switch":
                sw = t
                break
            b = t.target if t.kind in ("goto", "drop") else None
        if sw is None:
            continue
        some = dict(sw.targets).get(1, sw.otherwise)
        out.append((c, some))
    return out


def loop_always_passes(fd, next_call, body_entry, is_sink):
    """every path from the body entry back to the loop header passes an instruction accepted by is_sink; returns
    (True, sinks) or (False, a block path witness)"""
    header = next_call.bb
    sinks = [i for i in fd.body.instrs() if i.kind == "call" and is_sink(i)]
    barrier = {i.bb for i in sinks}
    seen, wl = set(), [body_entry]
    while wl:
        b = wl.pop()
        if b in seen:
            continue
        seen.add(b)
        if b in barrier:
            continue
        if b == header:
            return False, sinks
        for s in fd.cfg.succ[b]:
            wl.append(s)
    return True, sinks
