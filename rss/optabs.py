"""A small abstract interpreter over MIR for the Some/None-ness of Option values.

Used to decide, for a function that combines two optional limits, in which of the four
presence cases the result is None.  Values: 'S' (Some), 'N' (None), '?' (unknown).
Paths are explored exhaustively (loop-free bodies; a step budget guards against loops)."""

OPT = "core::option::Option"


def pkey(place):
    fp = []
    for p in place.proj:
        if p["k"] == "field":
            fp.append(p["i"])
        elif p["k"] == "deref":
            continue
        elif p["k"] == "downcast":
            fp.append("dc")
        else:
            fp.append("?")
    return (place.local, tuple(fp))


class OptInterp:
    def __init__(self, body, sources, watch=()):
        """sources: callee key or instruction id -> abstract value for the result of that call.
        Values: S/N (Option), O/E (Result Ok/Err), T/F (bool), ? (unknown).
        watch: instruction ids; for every explored path that returns, `paths` records which of them it passed"""
        self.body = body
        self.sources = sources
        self.results = []
        self.steps = 0
        self.trace = []
        self.watch = set(watch)
        self.paths = []
        self._passed = []
        self.forced = {}          # local -> variant index (the discriminant of what the local is or points to)
        self.records = []         # per returning path: {"reads": {field atom: n}, "calls": [callee], "ret_src": set, "ret": value}
        self._reads = {}
        self._calls = []
        self.src = {}             # provenance labels: pkey -> frozenset(labels)
        self.labels = {}          # callee or instruction id -> label for the result of that call
        self.field_labels = {}    # "field:<adt>.<name>" -> label for every read of that field
        self._ctl = frozenset()   # labels of the values the current path has branched on
        self.prog = None          # Program: lets a closure value carry the labels of what its body reads
        self.field_values = {}    # "field:<adt>.<name>" -> abstract value of every read of that field (T/F/S/N)
        self.probes = {}          # call instruction id -> argument index whose abstract value is recorded per path
        self._probe = {}
        self.enum_preds = {}      # callee -> set of variant indices for which the predicate (on its first argument) is true
        self.fork_unknown = False  # explore both cases of an Option of unknown presence at unwrap_or / map_or / or

    def val(self, env, op):
        if op.place is not None:
            k = pkey(op.place)
            if k in env:
                return env[k]
            if self.field_values:
                for (adt, v, n, i) in op.place.fields():
                    fv = self.field_values.get("field:%s.%s" % (adt, n)) if adt and n is not None else None
                    if fv is not None:
                        return fv
            # reference to a tracked place
            return env.get(("ref", k), "?")
        if op.const is not None:
            s = op.const.get("s") or ""
            if "None" in s and "Option" in s:
                return "N"
            if op.const.get("ty") == "bool" and "val" in op.const:
                return "T" if op.const["val"] == "1" else "F"
            if "::" in s and "val" not in op.const and "fn" not in op.const and "promoted" not in s:
                return ("V", s.split("::")[-1])       # a named constant, e.g. Distance::ZERO
        return "?"

    def srcs(self, env, op):
        if op.place is None:
            return frozenset()
        extra = frozenset()
        if self.field_labels:
            for (adt, v, n, i) in op.place.fields():
                lab = self.field_labels.get("field:%s.%s" % (adt, n)) if adt and n is not None else None
                if lab:
                    extra |= frozenset([lab])
        k = pkey(op.place)
        se = env.get("__src__", {})
        while True:
            if k in se:
                return se[k] | extra
            if not k[1]:
                return extra
            k = (k[0], k[1][:-1])

    def set_src(self, env, place, labels):
        se = dict(env.get("__src__", {}))
        k = pkey(place)
        for kk in [x for x in se if x[0] == k[0] and x[1][:len(k[1])] == k[1]]:
            del se[kk]
        se[k] = frozenset(labels)
        env["__src__"] = se

    def closure_labels(self, ck, depth=0):
        """labels of the labelled fields read and labelled functions called inside a closure body (and its nested closures)"""
        out = frozenset()
        body = self.prog.bodies.get(ck) if self.prog is not None else None
        if body is None or depth > 3:
            return out
        for ins in body.instrs():
            for op in list(ins.ops) + list(ins.args):
                if op.place is not None:
                    for (adt, v, n, i) in op.place.fields():
                        lab = self.field_labels.get("field:%s.%s" % (adt, n)) if adt and n is not None else None
                        if lab:
                            out |= frozenset([lab])
            if ins.kind == "call" and ins.callee in self.labels:
                out |= frozenset([self.labels[ins.callee]])
            if ins.kind == "assign" and ins.rv_kind() == "agg" and ins.rv.get("ak") == "closure":
                out |= self.closure_labels(ins.rv["closure"], depth + 1)
        return out

    def note_reads(self, ins):
        ops = list(ins.ops) + list(ins.args)
        for op in ops:
            if op.place is not None:
                for (adt, v, n, i) in op.place.fields():
                    if adt and n is not None:
                        a = "field:%s.%s" % (adt, n)
                        self._reads = dict(self._reads)
                        self._reads[a] = self._reads.get(a, 0) + 1

    def assign(self, env, place, v, whole_from=None):
        k = pkey(place)
        if not k[1] and k[0] in self.forced and k[0] > self.body.argc:
            env[k] = ("D", self.forced[k[0]])      # a local whose variant is fixed for this exploration keeps it
            return
        # drop stale sub-keys
        for kk in [x for x in env if isinstance(x[0], int) and x[0] == k[0] and x[1][:len(k[1])] == k[1]]:
            del env[kk]
        if whole_from is not None:
            src = whole_from
            for kk, vv in list(env.items()):
                if isinstance(kk[0], int) and kk[0] == src[0] and kk[1][:len(src[1])] == src[1]:
                    env[(k[0], k[1] + kk[1][len(src[1]):])] = vv
            return
        env[k] = v

    def call_model(self, env, ins):
        c = ins.callee or ""
        a = [self.val(env, o) for o in ins.args]
        if ins.id in self.sources:
            return self.sources[ins.id]
        if c in self.sources:
            return self.sources[c]
        if c in self.enum_preds and a and isinstance(a[0], tuple) and a[0][0] == "D":
            return "T" if a[0][1] in self.enum_preds[c] else "F"
        RES = "core::result::Result"
        if c.startswith(RES + "::"):
            nm = c.split("::")[-1]
            if nm == "is_ok":
                return {"O": "T", "E": "F"}.get(a[0], "?")
            if nm == "is_err":
                return {"O": "F", "E": "T"}.get(a[0], "?")
            if nm in ("is_ok_and",):
                return "F" if a[0] == "E" else "?"
            if nm in ("is_err_and",):
                return "F" if a[0] == "O" else "?"
            if nm in ("unwrap", "expect"):
                return "!" if a[0] == "E" else "?"
            if nm in ("unwrap_err", "expect_err"):
                return "!" if a[0] == "O" else "?"
            if nm == "ok":
                return {"O": "S", "E": "N"}.get(a[0], "?")
            if nm == "err":
                return {"O": "N", "E": "S"}.get(a[0], "?")
            if nm in ("as_ref", "as_mut", "map", "map_err", "cloned", "copied"):
                return a[0]
            return "?"
        if c.endswith("as core::clone::Clone>::clone") and "Result" in c:
            return a[0]
        name = c.split("::")[-1]
        if c.startswith(OPT + "::"):
            if name in ("map", "as_ref", "as_mut", "copied", "cloned", "inspect", "as_deref", "take"):
                return a[0]
            if name == "or":
                if a[0] == "S" or a[1] == "S":
                    return "S"
                if a[0] == "N" and a[1] == "N":
                    return "N"
                return "?"
            if name in ("or_else",):
                return "S" if a[0] == "S" else "?"
            if name in ("and", "zip"):
                if a[0] == "N" or a[1] == "N":
                    return "N"
                if a[0] == "S" and a[1] == "S":
                    return "S"
                return "?"
            if name in ("and_then", "filter"):
                return "N" if a[0] == "N" else "?"
            if name == "xor":
                if "?" in a[:2]:
                    return "?"
                return "S" if (a[0] == "S") != (a[1] == "S") else "N"
            return "?"
        if c.endswith("as core::clone::Clone>::clone") and OPT in c:
            return a[0]
        if c in ("core::cmp::Ord::min", "core::cmp::min") and any(OPT.split("::")[-1] in t or "Option" in t for t in ins.targs):
            if a[0] == "N" or a[1] == "N":
                return "N"
            if a[0] == "S" and a[1] == "S":
                return "S"
            return "?"
        if c in ("core::cmp::Ord::max", "core::cmp::max") and any("Option" in t for t in ins.targs):
            if a[0] == "S" or a[1] == "S":
                return "S"
            if a[0] == "N" and a[1] == "N":
                return "N"
            return "?"
        return "?"

    def call_sources(self, env, ins):
        """provenance labels of a call result (Option combinators keep the labels of the value they forward)"""
        c = ins.callee or ""
        if ins.id in self.labels:
            return frozenset([self.labels[ins.id]])
        if c in self.labels:
            return frozenset([self.labels[c]])
        a = [self.val(env, o) for o in ins.args]
        sa = [self.srcs(env, o) for o in ins.args]
        name = c.split("::")[-1]
        if c.startswith(OPT + "::"):
            if name in ("or",):
                return sa[0] if a[0] == "S" else (sa[1] if a[0] == "N" else sa[0] | sa[1])
            if name in ("unwrap_or",):
                return sa[0] if a[0] == "S" else (sa[1] if a[0] == "N" else sa[0] | sa[1])
            if name in ("as_ref", "as_mut", "copied", "cloned", "unwrap", "expect", "take"):
                return sa[0]
            if name in ("unwrap_or_else", "or_else"):
                return sa[0] if a[0] == "S" else (sa[1] if a[0] == "N" else sa[0] | sa[1])
            if name in ("map_or", "map_or_else") and len(sa) >= 3:
                # absent: the default alone; present: the mapped value (the closure may capture further sources)
                return sa[1] if a[0] == "N" else (sa[0] | sa[2] if a[0] == "S" else sa[0] | sa[1] | sa[2])
        out = frozenset()
        for x in sa:
            out |= x
        return out

    def run(self):
        env = {}
        for l, vi in self.forced.items():
            env[(l, ())] = ("D", vi)
        self.explore(0, 0, env, {})
        return self.results

    def explore(self, bb, idx, env, discr_of):
        # bodies with loops are not unrolled: beyond a bounded nesting of branch decisions the path is given up as unknown
        self._nest = getattr(self, "_nest", 0) + 1
        try:
            if self._nest > 120:
                self.results.append("?")
                self.records.append({"reads": dict(self._reads), "calls": list(self._calls), "ret": "?", "ctl_src": set(self._ctl),
                                     "probe": dict(self._probe), "ret_src": set(), "gave_up": True})
                return
            return self._explore(bb, idx, env, discr_of)
        finally:
            self._nest -= 1

    def _explore(self, bb, idx, env, discr_of):
        body = self.body
        while True:
            self.steps += 1
            if self.steps > 20000:
                self.results.append("?")
                return
            ins = body.blocks[bb][idx]
            k = ins.kind
            if k in ("assign", "call"):
                self.note_reads(ins)
            if k == "assign":
                rk = ins.rv_kind()
                # provenance labels flow through plain data operations
                lab = frozenset()
                for o_ in ins.ops:
                    lab |= self.srcs(env, o_)
                if rk == "agg" and ins.rv.get("ak") == "closure":
                    lab |= self.closure_labels(ins.rv["closure"])
                if rk == "discr":
                    from .facts import Operand as _Op
                    dp_ = ins.discr_place()
                    lab |= self.srcs(env, _Op({"k": "copy", "pl": {"l": dp_.local, "p": dp_.proj}}))
                rp_ = ins.ref_place()
                if rp_ is not None:
                    from .facts import Operand as _Op
                    lab |= self.srcs(env, _Op({"k": "copy", "pl": {"l": rp_.local, "p": rp_.proj}}))
                if rk == "use":
                    o = ins.ops[0]
                    if o.place is not None:
                        self.assign(env, ins.place, None, whole_from=pkey(o.place))
                        v = self.val(env, o)
                        if pkey(ins.place) not in env:
                            env[pkey(ins.place)] = v
                    else:
                        self.assign(env, ins.place, self.val(env, o))
                elif rk == "ref":
                    p = ins.ref_place()
                    self.assign(env, ins.place, None, whole_from=pkey(p))
                    if pkey(ins.place) not in env:
                        env[pkey(ins.place)] = env.get(pkey(p), "?")
                elif rk == "agg":
                    ak = ins.rv.get("ak")
                    if ak == "adt" and ins.rv.get("adt") == OPT:
                        self.assign(env, ins.place, "S" if ins.rv.get("v") == "Some" else "N")
                    elif ak == "adt" and not ins.ops and ins.rv.get("v"):
                        self.assign(env, ins.place, ("V", ins.rv.get("v")))      # a unit variant, e.g. Distance::Infinity
                    elif ak in ("tuple", "closure"):
                        base = pkey(ins.place)
                        self.assign(env, ins.place, "?")
                        for i, o in enumerate(ins.ops):
                            env[(base[0], base[1] + (i,))] = self.val(env, o)
                    else:
                        self.assign(env, ins.place, "?")
                elif rk == "binop" and ins.id in self.sources:
                    self.assign(env, ins.place, self.sources[ins.id])
                elif rk == "unop" and ins.rv.get("op") == "Not":
                    v = self.val(env, ins.ops[0])
                    self.assign(env, ins.place, {"T": "F", "F": "T"}.get(v, "?"))
                elif rk == "discr":
                    p = ins.discr_place()
                    discr_of = dict(discr_of)
                    discr_of[ins.place.local] = pkey(p)
                    self.assign(env, ins.place, "?")
                else:
                    self.assign(env, ins.place, "?")
                if rk == "discr":
                    pv = env.get(pkey(ins.discr_place()))
                    if isinstance(pv, tuple) and pv[0] == "D":
                        env[pkey(ins.place)] = pv
                self.set_src(env, ins.place, lab)
                if rk == "agg" and ins.rv.get("ak") in ("tuple", "closure"):
                    se = dict(env.get("__src__", {}))
                    base = pkey(ins.place)
                    for i_, o_ in enumerate(ins.ops):
                        se[(base[0], base[1] + (i_,))] = self.srcs(env, o_)
                    env["__src__"] = se
                elif rk == "use" and ins.ops and ins.ops[0].place is not None:
                    # moving/copying a whole value keeps the per-field labels
                    se = dict(env.get("__src__", {}))
                    sk, dk = pkey(ins.ops[0].place), pkey(ins.place)
                    for kk, vv in list(se.items()):
                        if kk[0] == sk[0] and kk[1][:len(sk[1])] == sk[1] and kk != sk:
                            se[(dk[0], dk[1] + kk[1][len(sk[1]):])] = vv
                    env["__src__"] = se
                idx += 1
                continue
            if k == "setdiscr":
                idx += 1
                continue
            if k == "call":
                if ins.id in self.watch:
                    self._passed = self._passed + [ins.id]
                if ins.id in self.probes:
                    self._probe = dict(self._probe)
                    self._probe[ins.id] = self.val(env, ins.args[self.probes[ins.id]])
                if self.fork_unknown and (ins.callee or "").startswith(OPT + "::") and ins.args and ins.args[0].place is not None \
                        and (ins.callee or "").split("::")[-1] in ("unwrap_or", "unwrap_or_else", "unwrap_or_default", "map_or", "map_or_else", "or", "or_else") \
                        and self.val(env, ins.args[0]) == "?":
                    saved = (list(self._passed), dict(self._reads), list(self._calls), self._ctl)
                    for want in ("S", "N"):
                        e2 = dict(env)
                        e2[pkey(ins.args[0].place)] = want
                        self._passed, self._reads, self._calls, self._ctl = list(saved[0]), dict(saved[1]), list(saved[2]), saved[3]
                        self.explore(bb, idx, e2, discr_of)
                    return
                v = self.call_model(env, ins)
                self._calls = self._calls + [ins.callee or "?"]
                if v == "!":
                    return  # panics on this path
                if ins.dest is not None:
                    self.assign(env, ins.dest, v)
                    lab = self.call_sources(env, ins)
                    self.set_src(env, ins.dest, lab)
                if ins.target is None:
                    return  # diverges
                bb, idx = ins.target, 0
                continue
            if k in ("goto", "drop", "assert"):
                bb, idx = ins.target, 0
                continue
            if k == "return":
                self.results.append(env.get((0, ()), "?"))
                self.paths.append(list(self._passed))
                self.records.append({"reads": dict(self._reads), "calls": list(self._calls), "ret": env.get((0, ()), "?"), "ctl_src": set(self._ctl), "probe": dict(self._probe),
                                     "ret_src": set(env.get("__src__", {}).get((0, ()), frozenset()))})
                return
            if k == "switch":
                o = ins.ops[0]
                src = discr_of.get(o.place.local) if o.place is not None and o.place.is_local else None
                tmap = dict(ins.targets)
                saved = list(self._passed)
                saved_reads, saved_calls = dict(self._reads), list(self._calls)
                if o.place is not None:
                    self._ctl = self._ctl | self.srcs(env, o)
                saved_ctl = self._ctl
                saved_probe = dict(self._probe)
                dv = self.val(env, o) if o.place is not None else "?"
                if isinstance(dv, tuple) and dv[0] == "D":
                    t = tmap.get(dv[1], ins.otherwise)
                    self.explore(t, 0, dict(env), discr_of)
                    return

                def dead(t):
                    return self.body.blocks[t][-1].kind == "unreachable" and len(self.body.blocks[t]) == 1
                if src is not None:
                    cur = env.get(src, "?")
                    if cur in ("O", "E"):
                        options = ((0, "O"), (1, "E"))
                    elif cur in ("S", "N"):
                        options = ((0, "N"), (1, "S"))
                    else:
                        ty = self.body.local_ty(src[0]) if isinstance(src[0], int) and src[0] >= 0 else ""
                        if not src[1] and "Option<" in ty.split("<")[0] + "<" and ty.lstrip("&").startswith(("std::option::Option<", "core::option::Option<")):
                            options = ((0, "N"), (1, "S"))
                        elif not src[1] and ty.lstrip("&").startswith(("std::result::Result<", "core::result::Result<")):
                            options = ((0, "O"), (1, "E"))
                        else:
                            options = None
                    if options is not None:
                        for dval, want in options:
                            t = tmap.get(dval, ins.otherwise)
                            if dead(t) or (cur != "?" and cur != want):
                                continue
                            e2 = dict(env)
                            e2[src] = want
                            self._passed = list(saved)
                            self._reads, self._calls, self._ctl = dict(saved_reads), list(saved_calls), saved_ctl
                            self._probe = dict(saved_probe)
                            self.explore(t, 0, e2, discr_of)
                        return
                bv = self.val(env, o) if o.place is not None else "?"
                if bv in ("T", "F") and ins.j.get("ty") == "bool":
                    t = tmap.get(0, ins.otherwise) if bv == "F" else ins.otherwise
                    if not dead(t):
                        self._passed = list(saved)
                        self._reads, self._calls, self._ctl = dict(saved_reads), list(saved_calls), saved_ctl
                        self._probe = dict(saved_probe)
                        self.explore(t, 0, dict(env), discr_of)
                    return
                ts = [b for _, b in ins.targets] + [ins.otherwise]
                seen = set()
                for t in ts:
                    if t in seen:
                        continue
                    seen.add(t)
                    if dead(t):
                        continue
                    e2 = dict(env)
                    if src is not None and t != ins.otherwise:
                        pass
                    self._passed = list(saved)
                    self._reads, self._calls, self._ctl = dict(saved_reads), list(saved_calls), saved_ctl
                    self._probe = dict(saved_probe)
                    self.explore(t, 0, e2, discr_of)
                return
            if k == "unreachable":
                return
            # resume / terminate / others
            return


def presence_table(body, src_a, src_b):
    """result Some/None-ness for the four presence cases of the two source calls"""
    out = {}
    for va in ("S", "N"):
        for vb in ("S", "N"):
            it = OptInterp(body, {src_a: va, src_b: vb})
            out[(va, vb)] = sorted(set(it.run()))
    return out


def presence_sources(body, src_a, src_b, prog=None):
    """for the four presence cases: list of (result tag, provenance labels of the result) over all returning paths"""
    out = {}
    for va in ("S", "N"):
        for vb in ("S", "N"):
            it = OptInterp(body, {src_a: va, src_b: vb})
            it.labels = {src_a: "A", src_b: "B"}
            it.prog = prog
            it.run()
            out[(va, vb)] = sorted({(r["ret"] if isinstance(r["ret"], str) else "?", tuple(sorted(r["ret_src"]))) for r in it.records})
    return out


def enum_cases(body, forced, enum_preds=None):
    """explore the body with the discriminants of the given locals fixed; returns the per-path records"""
    it = OptInterp(body, {})
    it.forced = dict(forced)
    it.enum_preds = enum_preds or {}
    it.run()
    return it.records


def value_paths(body, labels=None, field_labels=None, sources=None, fork_unknown=True, prog=None):
    """all returning paths with the provenance labels of the returned value (`ret_src`) and of the values branched on (`ctl_src`)"""
    it = OptInterp(body, sources or {})
    it.labels = labels or {}
    it.field_labels = field_labels or {}
    it.fork_unknown = fork_unknown
    it.prog = prog
    it.run()
    return it.records
