"""Expression shapes: the formula a function computes, read off MIR by direct provenance, matched against a documented
pattern.  Used for the handful of one-line formulas everything else rests on (can_reach, idle time, turnaround, duration):
same ingredients in a different arrangement (swapped operands, + for -, <= for <, start for end) is a violation; an
expression built from other ingredients is not recognised and stays undecided.

Expression trees
  ("param", i) | ("const", text) | ("field", adt, name) | ("bin", op, a, b) | ("not", a) | ("call", callee, [args]) |
  ("phi", [alternatives]) | ("?",)
Patterns
  ("any",) | ("side", i)            every parameter the subtree reads is parameter i (or self), and i is read
  ("bin", op, A, B)                 op in Add Sub Le Lt Eq Ne Min Max (Ge/Gt are normalised to Le/Lt with swapped operands)
  ("call", suffix, [A, ...])        callee ends with suffix; listed argument patterns (None = do not care), receiver first
  ("field", adt, name)
"""
from .facts import Operand

TRANSPARENT = ("::unwrap", "::expect", "::unwrap_or_else", "::unwrap_or", "::clone", "::copied", "::cloned", "::deref", "::as_ref", "::borrow", "::into", "::from",
               "::unwrap_or_default", "::to_owned")
CALL_OPS = {
    "core::cmp::PartialOrd::le": "Le", "core::cmp::PartialOrd::lt": "Lt", "core::cmp::PartialOrd::ge": "Ge", "core::cmp::PartialOrd::gt": "Gt",
    "core::cmp::PartialEq::eq": "Eq", "core::cmp::PartialEq::ne": "Ne", "core::ops::arith::Add::add": "Add", "core::ops::arith::Sub::sub": "Sub",
    "core::cmp::Ord::min": "Min", "core::cmp::Ord::max": "Max", "core::cmp::min": "Min", "core::cmp::max": "Max",
}
COMMUTATIVE = {"Add", "Eq", "Ne", "Min", "Max", "Mul"}


def norm_op(op):
    for suf in ("WithOverflow", "Unchecked"):
        if op.endswith(suf):
            op = op[:-len(suf)]
    return op


def expr_of_instr(fd, ins, depth=0, seen=None):
    seen = seen or set()
    if depth > 48 or ins is None:
        return ("?",)
    if ins.kind == "assign":
        rk = ins.rv_kind()
        if rk in ("use", "cast") and ins.ops:
            return expr(fd, ins.ops[0], depth + 1, seen)
        if rk == "ref":
            p = ins.ref_place()
            return expr(fd, Operand({"k": "copy", "pl": {"l": p.local, "p": p.proj}}), depth + 1, seen)
        if rk == "binop":
            return ("bin", norm_op(ins.rv["op"]), expr(fd, ins.ops[0], depth + 1, seen), expr(fd, ins.ops[1], depth + 1, seen))
        if rk == "agg":
            if ins.rv.get("adt") == "core::option::Option" or ins.rv.get("adt") == "core::result::Result":
                return expr(fd, ins.ops[0], depth + 1, seen) if ins.ops else ("const", ins.rv.get("v"))
            nm = ins.rv.get("adt") or ins.rv.get("ak") or "agg"
            return ("call", "agg:%s" % nm, [expr(fd, o_, depth + 1, seen) for o_ in ins.ops[:6]])
        if rk == "unop" and ins.ops:
            return ("not", expr(fd, ins.ops[0], depth + 1, seen)) if ins.rv.get("op") == "Not" else expr(fd, ins.ops[0], depth + 1, seen)
        return ("?",)
    if ins.kind == "call":
        op = CALL_OPS.get(ins.decl or "") or CALL_OPS.get(ins.callee or "")
        if op and len(ins.args) == 2:
            return ("bin", op, expr(fd, ins.args[0], depth + 1, seen), expr(fd, ins.args[1], depth + 1, seen))
        name = ins.callee or "?"
        if any(name.endswith(t) for t in TRANSPARENT) and ins.args:
            return expr(fd, ins.args[0], depth + 1, seen)
        return ("call", name, [expr(fd, a, depth + 1, seen) for a in ins.args])
    return ("?",)


def expr(fd, op, depth=0, seen=None):
    seen = seen or set()
    if op.place is None:
        c = op.const or {}
        return ("const", c.get("s") or c.get("val"))
    p = op.place
    flds = [x for x in p.fields() if x[0] and x[2] is not None]
    l = p.local
    if depth > 48:
        return ("?",)
    ds = [d for d in fd.defs.get(l, ()) if d.kind != "param"]
    if len(ds) > 1:
        ds2 = [d for d in ds if d.kind != "call-mut"]
        ds = ds2 or ds
    if not ds:
        if flds:
            return ("field", flds[-1][0], flds[-1][2])
        if 1 <= l <= fd.body.argc:
            return ("param", l)
        return ("?",)
    if flds and not any(pp["k"] == "field" and pp.get("tuple") for pp in p.proj):
        # a named field of something computed: keep the field as the leaf, remember what it is a field of
        base = expr(fd, Operand({"k": "copy", "pl": {"l": l, "p": []}}), depth + 1, seen)
        if base[0] in ("param", "?"):
            return ("field", flds[-1][0], flds[-1][2])
        return ("call", "field:%s.%s" % (flds[-1][0], flds[-1][2]), [base])
    tf = [pp for pp in p.proj if pp["k"] == "field" and pp.get("tuple")]
    nd = [pp for pp in p.proj if pp["k"] != "deref"]
    if nd and nd[0]["k"] == "field" and nd[0].get("tuple") and flds:
        # (tuple.i as Variant).field : the component first, the rest of the path is dropped
        base = expr(fd, Operand({"k": "copy", "pl": {"l": l, "p": []}}), depth + 1, seen)
        if base[0] == "call" and base[1] == "agg:tuple" and nd[0]["i"] < len(base[2]):
            return base[2][nd[0]["i"]]
        return ("call", "tuple.%d" % nd[0]["i"], [base])
    if tf and not flds:
        # a component of a tuple value: keep which one
        base = expr(fd, Operand({"k": "copy", "pl": {"l": l, "p": []}}), depth + 1, seen)
        if base[0] == "call" and base[1] == "agg:tuple" and tf[-1]["i"] < len(base[2]):
            return base[2][tf[-1]["i"]]
        if base[0] == "bin" and tf[-1]["i"] == 0:
            return base             # the value component of checked arithmetic (AddWithOverflow(..).0)
        return ("call", "tuple.%d" % tf[-1]["i"], [base])
    if (l, tuple(str(x) for x in p.proj)) in seen:
        return ("?",)
    seen = seen | {(l, tuple(str(x) for x in p.proj))}
    if len(ds) == 1:
        return expr_of_instr(fd, ds[0].instr, depth, seen)
    alts = []
    for d in ds[:6]:
        alts.append(expr_of_instr(fd, d.instr, depth + 1, seen))
    return ("phi", alts)


def params_of(e, acc=None):
    acc = set() if acc is None else acc
    if e[0] == "param":
        acc.add(e[1])
    elif e[0] == "bin":
        params_of(e[2], acc)
        params_of(e[3], acc)
    elif e[0] == "not":
        params_of(e[1], acc)
    elif e[0] == "call":
        for a in e[2]:
            params_of(a, acc)
    elif e[0] == "phi":
        for a in e[1]:
            params_of(a, acc)
    return acc


def fields_of(e, acc=None):
    acc = set() if acc is None else acc
    if e[0] == "field":
        acc.add(e[2])
    elif e[0] == "bin":
        fields_of(e[2], acc)
        fields_of(e[3], acc)
    elif e[0] == "not":
        fields_of(e[1], acc)
    elif e[0] == "call":
        if e[1].startswith("field:"):
            acc.add(e[1].split(".")[-1])
        for a in e[2]:
            fields_of(a, acc)
    elif e[0] == "phi":
        for a in e[1]:
            fields_of(a, acc)
    return acc


def calls_of(e, acc=None):
    acc = set() if acc is None else acc
    if e[0] == "call":
        acc.add(e[1])
        for a in e[2]:
            calls_of(a, acc)
    elif e[0] == "bin":
        acc.add("op:" + e[1])
        calls_of(e[2], acc)
        calls_of(e[3], acc)
    elif e[0] == "not":
        calls_of(e[1], acc)
    elif e[0] == "phi":
        for a in e[1]:
            calls_of(a, acc)
    return acc


def pattern_calls(p, acc=None):
    acc = set() if acc is None else acc
    if p is None:
        return acc
    if p[0] == "call":
        acc.add(p[1])
        for a in p[2]:
            pattern_calls(a, acc)
    elif p[0] == "bin":
        pattern_calls(p[2], acc)
        pattern_calls(p[3], acc)
    return acc


def normalise(e):
    if e[0] == "bin":
        a, b = normalise(e[2]), normalise(e[3])
        if e[1] == "Ge":
            return ("bin", "Le", b, a)
        if e[1] == "Gt":
            return ("bin", "Lt", b, a)
        return ("bin", e[1], a, b)
    if e[0] == "call":
        return ("call", e[1], [normalise(a) for a in e[2]])
    if e[0] == "not":
        return ("not", normalise(e[1]))
    if e[0] == "phi":
        return ("phi", [normalise(a) for a in e[1]])
    return e


def match(p, e, self_param=1):
    if p is None or p[0] == "any":
        return True
    if e[0] == "phi":
        return any(match(p, a, self_param) for a in e[1])
    if p[0] == "side":
        ps = params_of(e)
        return p[1] in ps and ps <= {p[1], self_param}
    if p[0] == "param":
        return e == p
    if p[0] == "const":
        return e[0] == "const" and str(e[1]).startswith(p[1])
    if p[0] == "field":
        return e[0] == "field" and e[2] == p[2] and (p[1] is None or e[1] == p[1]) or \
            (e[0] == "call" and e[1] == "field:%s.%s" % (p[1], p[2]))
    if p[0] == "bin":
        if e[0] != "bin" or e[1] != p[1]:
            return False
        if match(p[2], e[2], self_param) and match(p[3], e[3], self_param):
            return True
        return p[1] in COMMUTATIVE and match(p[2], e[3], self_param) and match(p[3], e[2], self_param)
    if p[0] == "call":
        if e[0] != "call" or not e[1].endswith(p[1]):
            return False
        for i, ap in enumerate(p[2]):
            if ap is None:
                continue
            if i >= len(e[2]) or not match(ap, e[2][i], self_param):
                return False
        return True
    return False


def show(e, depth=0):
    if depth > 5:
        return ".."
    if e[0] == "param":
        return "p%d" % e[1]
    if e[0] == "const":
        return str(e[1])[:12]
    if e[0] == "field":
        return ".%s" % e[2]
    if e[0] == "bin":
        sym = {"Add": "+", "Sub": "-", "Le": "<=", "Lt": "<", "Eq": "==", "Ne": "!=", "Min": "min", "Max": "max", "Mul": "*"}.get(e[1], e[1])
        return "(%s %s %s)" % (show(e[2], depth + 1), sym, show(e[3], depth + 1))
    if e[0] == "not":
        return "!%s" % show(e[1], depth + 1)
    if e[0] == "call":
        return "%s(%s)" % (e[1].split("::")[-1], ", ".join(show(a, depth + 1) for a in e[2]))
    if e[0] == "phi":
        return "{" + " | ".join(show(a, depth + 1) for a in e[1][:3]) + "}"
    return "?"


def candidates(fd, top_op):
    """expressions of all instructions of the body whose top-level operator is `top_op` (after normalisation)"""
    out = []
    for ins in fd.body.instrs():
        e = None
        if ins.kind == "assign" and ins.rv_kind() == "binop":
            e = expr_of_instr(fd, ins)
        elif ins.kind == "call" and (CALL_OPS.get(ins.decl or "") or CALL_OPS.get(ins.callee or "")):
            e = expr_of_instr(fd, ins)
        if e is None or e[0] != "bin":
            continue
        e = normalise(e)
        if e[1] == top_op:
            out.append((ins, e))
    return out


def _twin(name):
    """start/end, first/last twins count as the same ingredient when looking for a near miss"""
    n = name.split("::")[-1]
    for a, b in (("start_", "X_"), ("end_", "X_"), ("first", "Y"), ("last", "Y")):
        n = n.replace(a, b)
    return n


def decide(fd, pattern):
    """('ok', instr, text) | ('bad', instr, text) | ('undecided', None, text)"""
    pat = normalise(pattern)
    need = {_twin(x) for x in pattern_calls(pat)}
    cands = candidates(fd, pat[1])
    near = []
    for ins, e in cands:
        if match(pat, e):
            return "ok", ins, show(e)
        have = {_twin(h) for h in calls_of(e)}
        if all(n in have for n in need):
            near.append((ins, e))
    if near:
        return "bad", near[0][0], show(near[0][1])
    # the ingredients may be there under another top-level operator (+ turned into -, <= into <)
    for ins in fd.body.instrs():
        if (ins.kind == "assign" and ins.rv_kind() == "binop") or (ins.kind == "call" and (CALL_OPS.get(ins.decl or "") or CALL_OPS.get(ins.callee or ""))):
            e = normalise(expr_of_instr(fd, ins))
            if e[0] == "bin" and need and all(n in {_twin(h) for h in calls_of(e)} for n in need):
                sub_ok = e[1] != pat[1]
                if sub_ok:
                    return "bad", ins, show(e)
    return "undecided", None, "no expression with the documented ingredients found"
