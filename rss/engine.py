"""Check runner: facts cache, obligations, known findings, evidence."""
import fcntl
import hashlib
import json
import os
import subprocess
import sys
import time

from .facts import Program
from .dep import Analysis

VERIF = os.path.dirname(os.path.dirname(os.path.abspath(__file__)))
REPO = os.environ.get("RSS_REPO", "/repo")
CACHE = os.environ.get("RSS_CACHE") or os.path.join(VERIF, ".cache")
CONTROLS = os.path.join(VERIF, "fixtures", "controls")


def tree_hash(root, extra=()):
    h = hashlib.sha256()
    files = []
    for dp, dn, fn in os.walk(root):
        dn[:] = [d for d in dn if d not in ("target", ".git", "seeded")]
        for f in fn:
            if f.endswith(".rs") or f in ("Cargo.toml", "Cargo.lock"):
                files.append(os.path.join(dp, f))
    for f in sorted(files):
        h.update(os.path.relpath(f, root).encode())
        h.update(b"\0")
        with open(f, "rb") as fh:
            h.update(fh.read())
        h.update(b"\0")
    for e in extra:
        h.update(e.encode())
    return h.hexdigest()[:24]


def driver_stamp():
    p = os.path.join(VERIF, "rsslint", "src", "main.rs")
    with open(p, "rb") as fh:
        return hashlib.sha256(fh.read()).hexdigest()[:12]


def ensure_facts(root, mode="lib"):
    """facts directory for the tree at `root` (content-addressed cache)"""
    os.makedirs(CACHE, exist_ok=True)
    hx = tree_hash(root, extra=(mode, driver_stamp()))
    d = os.path.join(CACHE, hx)
    done = os.path.join(d, "DONE")
    if os.path.exists(done):
        return d, True
    lock = open(os.path.join(CACHE, hx + ".lock"), "w")
    fcntl.flock(lock, fcntl.LOCK_EX)
    try:
        if os.path.exists(done):
            return d, True
        os.makedirs(d, exist_ok=True)
        r = subprocess.run([os.path.join(VERIF, "bin", "extract.sh"), root, d, mode],
                           stdout=subprocess.PIPE, stderr=subprocess.PIPE, text=True)
        if r.returncode != 0:
            sys.stderr.write(r.stderr[-4000:])
            raise RuntimeError("fact extraction failed for %s (the tree does not compile?)" % root)
        with open(done, "w") as fh:
            fh.write(time.strftime("%Y-%m-%dT%H:%M:%S"))
        if os.environ.get("RSS_CACHE"):
            return d, False
        # keep the cache small: drop all but the newest entries
        ents = [os.path.join(CACHE, e) for e in os.listdir(CACHE)
                if os.path.isdir(os.path.join(CACHE, e))]
        ents.sort(key=lambda p: os.path.getmtime(p), reverse=True)
        for old in ents[8:]:
            subprocess.run(["rm", "-rf", old])
        return d, False
    finally:
        fcntl.flock(lock, fcntl.LOCK_UN)
        lock.close()


class Obligation:
    def __init__(self, oid, rule, where, text):
        self.id = oid          # stable key: no line numbers
        self.rule = rule
        self.where = where     # function key
        self.text = text
        self.status = None     # ok | violated | undecided | anchor-missing
        self.detail = ""
        self.loc = ""          # file:line for the reader
        self.sample = None

    def as_json(self):
        j = {"id": self.id, "rule": self.rule, "fn": self.where, "what": self.text,
             "status": self.status, "at": self.loc}
        if self.detail:
            j["detail"] = self.detail
        if self.sample is not None:
            j["evidence"] = self.sample
        return j


class BrokenCheck(Exception):
    pass


def fn_is_closure_of_private(key):
    import re
    from .rules.private_anchors import PRIVATE_ANCHORS
    base = re.sub(r"(::\{closure#\d+\})+$", "", key)
    return base != key and base in PRIVATE_ANCHORS


class Ctx:
    def __init__(self, prop, tier, prog, an, label="repo"):
        self.prop = prop
        self.tier = tier
        self.prog = prog
        self.an = an
        self.label = label
        self.obligations = []
        self.functions = set()
        self.call_sites = 0
        self.notes = []
        from . import rulelib
        rulelib.set_current_program(prog)

    # -- anchors ---------------------------------------------------------------
    def body(self, key):
        b = self.prog.bodies.get(key)
        if b is not None:
            self.functions.add(key)
        return b

    def fd(self, key):
        fd = self.an.fd(key)
        if fd is not None:
            self.functions.add(key)
        return fd

    def ob(self, oid, rule, where, text):
        full = "%s/%s" % (self.prop, oid)
        if not hasattr(self, "_ids"):
            self._ids = {}
        n = self._ids.get(full, 0) + 1
        self._ids[full] = n
        if n > 1:
            full = "%s~%d" % (full, n)   # the same rule group reached twice inside one property
        o = Obligation(full, rule, where, text)
        b = self.prog.bodies.get(where)
        if b is not None:
            o.loc = b.file_line()
        self.obligations.append(o)
        return o

    def require_fn(self, oid, rule, key, text):
        """obligation anchored at a function; fails closed when the anchor is gone"""
        o = self.ob(oid, rule, key, text)
        fd = self.fd(key)
        if fd is None:
            from .rules.private_anchors import PRIVATE_ANCHORS
            if key in PRIVATE_ANCHORS or fn_is_closure_of_private(key):
                # a private helper may be inlined, split or renamed without changing behaviour
                o.status = "undecided"
                o.detail = "private helper %s is no longer present (inlined or renamed); the obligations on its public callers still apply" % key
                return o, None
            o.status = "anchor-missing"
            o.detail = "function %s not found in the analysed program" % key
            return o, None
        return o, fd

    def anchor_gone(self, o, key, what=None):
        """the function an obligation is anchored at does not exist: private helpers degrade to undecided"""
        from .rules.private_anchors import PRIVATE_ANCHORS
        if key in PRIVATE_ANCHORS or fn_is_closure_of_private(key):
            o.status = "undecided"
            o.detail = "private helper %s is no longer present (inlined or renamed)" % key
        else:
            o.status = "anchor-missing"
            o.detail = what or ("function %s not found in the analysed program" % key)
        return o

    def ok(self, o, detail="", sample=None):
        o.status = "ok"
        o.detail = detail
        o.sample = sample
        return o

    def bad(self, o, detail, loc=None, sample=None):
        o.status = "violated"
        o.detail = detail
        if loc:
            o.loc = loc
        o.sample = sample
        return o

    def undecided(self, o, detail):
        o.status = "undecided"
        o.detail = detail
        return o

    def floor(self, o, have, confirmed, what="sites", sample=None):
        """instance counts fail closed at zero (a rule matching nothing passes vacuously for ever); fewer instances than were
        confirmed on the reference tree are reported as undecided, because merging two sites into one is a legitimate edit"""
        if have <= 0:
            return self.bad(o, "no %s found (%d were confirmed by hand): the rule lost sight of what it checks" % (what, confirmed), None, sample)
        if have < confirmed:
            return self.undecided(o, "%d %s found, %d were confirmed on the reference tree (sites may have been merged)" % (have, what, confirmed))
        return self.ok(o, "%d %s" % (have, what), sample)

    def decide(self, o, cond, ok_detail="", bad_detail="", loc=None, sample=None):
        if cond:
            return self.ok(o, ok_detail, sample)
        return self.bad(o, bad_detail, loc, sample)


def load_known():
    p = os.path.join(VERIF, "known_findings.json")
    if not os.path.exists(p):
        return {"known": [], "fixed": []}
    with open(p) as fh:
        return json.load(fh)


def short_atoms(atoms, pats=("call:solution", "call:model", "call:solver", "call:server", "call:internal",
                             "field:")):
    out = sorted(a for a in atoms if a.startswith(pats))
    return out[:25]


def run_check(prop, tier, rule_fn, level_note, floors=None, controls_fn=None, thorough_fn=None):
    t0 = time.time()
    seed = int(os.environ.get("VERIF_SEED", "0") or 0)
    facts, cached = ensure_facts(REPO, "lib")
    prog = Program(facts)
    an = Analysis(prog, max_rounds=40)
    ctx = Ctx(prop, tier, prog, an)
    broken = []
    xinfo = None
    try:
        rule_fn(ctx)
        xinfo = cross_check(ctx, rule_fn)
    except BrokenCheck as e:
        broken.append(str(e))
    controls = None
    if controls_fn is not None:
        controls = controls_fn(ctx)
        for c in controls:
            if not c["fired"]:
                broken.append("positive control did not fire: %s" % c["name"])
    extra = {}
    if tier == "thorough" and thorough_fn is not None:
        extra = thorough_fn(ctx) or {}
        for b in extra.pop("broken", []):
            broken.append(b)
    known = load_known()
    known_keys = {k["key"]: k for k in known.get("known", []) if k.get("property") == prop}
    viol = []
    known_hit = []
    for o in ctx.obligations:
        if o.status is None:
            o.status = "anchor-missing"
            o.detail = "rule did not reach a verdict"
        if o.status in ("violated", "anchor-missing"):
            if o.id in known_keys and o.status == "violated":
                known_hit.append(o)
            else:
                viol.append(o)
    n_ob = len(ctx.obligations)
    n_ok = sum(1 for o in ctx.obligations if o.status == "ok")
    n_und = sum(1 for o in ctx.obligations if o.status == "undecided")
    floor_fail = []
    for name, (have, need) in (floors or (lambda c: {})) (ctx).items() if callable(floors) else []:
        if have < need:
            floor_fail.append("%s: found %d, expected at least %d" % (name, have, need))
    os.makedirs(os.path.join(VERIF, "evidence"), exist_ok=True)
    replay_dir = os.path.join(VERIF, "evidence", "replay")
    os.makedirs(replay_dir, exist_ok=True)
    replay = os.path.join(replay_dir, "%s.json" % prop)
    lines = []
    print("== %s (%s) on %s: %d units, %d bodies (%d analysed functions in rules), facts %s"
          % (prop, tier, REPO, len(prog.units), len(prog.bodies), len(ctx.functions),
             "cached" if cached else "extracted"))
    for o in ctx.obligations:
        mark = {"ok": "ok  ", "violated": "FAIL", "undecided": "??  ", "anchor-missing": "MISS"}[o.status]
        print("  [%s] %-34s %-4s %s  (%s)%s" % (mark, o.id, o.rule, o.text, o.loc,
                                                 ("\n         -> " + (o.detail if len(o.detail) < 600 else o.detail[:600] + " ...")) if o.status != "ok" and o.detail else ""))
    for o in known_hit:
        print("KNOWN-FINDING: property=%s %s: %s (%s)" % (prop, o.id, o.detail, o.loc))
    rc = 0
    if viol or floor_fail or broken:
        rc = 1
        with open(replay, "w") as fh:
            json.dump({"property": prop, "violations": [o.as_json() for o in viol],
                       "floors": floor_fail, "broken": broken}, fh, indent=1)
        for o in viol:
            print("VIOLATION property=%s replay=%s  # %s %s at %s: %s" % (prop, replay, o.id, o.status, o.loc,
                                                                          o.detail if len(o.detail) < 400 else o.detail[:400] + " ..."))
        for f in floor_fail:
            print("VIOLATION property=%s replay=%s  # floor: %s" % (prop, replay, f))
        for b in broken:
            print("BROKEN-CHECK property=%s %s" % (prop, b))
    wall = time.time() - t0
    samples = [o.as_json() for o in ctx.obligations[:60]]
    cov = {
        "explanation": level_note,
        "obligations": n_ob,
        "discharged": n_ok,
        "undecided": n_und,
        "known_findings_matched": [o.id for o in known_hit],
        "functions_analysed": len(ctx.functions),
        "functions": sorted(ctx.functions)[:200],
        "bodies_in_program": len(prog.bodies),
        "compilation_units": [u["file"].rsplit(".", 2)[0] for u in prog.units],
        "call_sites_examined": ctx.call_sites,
        "samples": samples,
        "exhaustive": True,
        "checker_cmd": "bin/check %s %s" % (prop, tier),
        "trusted_base": ["rustc nightly MIR (mir-opt-level=0) as exported by rsslint",
                         "dependence over-approximation documented in DESIGN.md §4",
                         "crates outside the workspace except rapid_solve bodies read for C06/C08/C15"],
        "summary_fixpoint_rounds": an.rounds,
        "notes": ctx.notes,
    }
    if controls is not None:
        cov["controls"] = controls
    if xinfo is not None:
        cov["second_view"] = xinfo
    cov.update(extra)
    ev = {
        "property_id": prop, "tier": tier, "seed": seed, "level": "other",
        "coverage": cov,
        "assumptions": ["the exported MIR is the program cargo builds (same workspace, dev profile, all 5 crates + bins)",
                        "std / im / rs-graph / rapid_time behave as documented"],
        "wall_s": round(wall, 2),
        "violations": len(viol) + len(floor_fail),
    }
    with open(os.path.join(VERIF, "evidence", "%s.json" % prop), "w") as fh:
        json.dump(ev, fh, indent=1)
    print("== %s: %d obligations, %d ok, %d undecided, %d known findings, %d violations, %.1fs"
          % (prop, n_ob, n_ok, n_und, len(known_hit), len(viol) + len(floor_fail), wall))
    return rc


_CONTROL = {}


def control_ctx(prop="CTL"):
    """analysis context of the positive-control crate (/verif/fixtures/controls)"""
    if "ctx" not in _CONTROL:
        facts, _ = ensure_facts(CONTROLS, "lib")
        prog = Program(facts)
        an = Analysis(prog, max_rounds=20)
        _CONTROL["ctx"] = (prog, an)
    prog, an = _CONTROL["ctx"]
    return Ctx(prop, "quick", prog, an, label="controls")


def run_controls(specs):
    """specs: list of (name, fn(ctx) -> None) where fn adds obligations on the control crate;
    a control fires when at least one of its obligations is violated"""
    out = []
    for name, fn in specs:
        c = control_ctx()
        try:
            fn(c)
            fired = any(o.status == "violated" for o in c.obligations)
            out.append({"name": name, "fired": fired,
                        "reports": [o.detail[:160] for o in c.obligations if o.status == "violated"][:3]})
        except Exception as e:  # a crashing control is a broken check
            out.append({"name": name, "fired": False, "error": repr(e)})
    return out


ALL_PROPS = ["C%02d" % i for i in range(1, 19)]


_VIEW2 = {}


def second_view(prog):
    """(program, analysis) with the helpers no rule knows by name inlined (rss/inline.py); built on demand, once per program"""
    key = id(prog)
    if key not in _VIEW2:
        from . import inline
        known = inline.known_names(os.path.join(VERIF, "rss", "rules"), [os.path.join(VERIF, "rss", "rulelib.py")])
        p2 = inline.build_view(prog, known)
        _VIEW2.clear()
        _VIEW2[key] = (p2, Analysis(p2, max_rounds=40))
    return _VIEW2[key]


def cross_check(ctx, rule_fn):
    """Reports are confirmed on a second, behaviour-preserving view of the program in which unknown helpers are
    transparent.  If the rules find nothing to report there, the reports of the first view are artefacts of where the
    code was split into functions and are withdrawn (status ok, with a note).  Otherwise the reports confirmed by
    both views are kept; what only one view reports is withdrawn (and recorded in the evidence)."""
    bad1 = [o for o in ctx.obligations if o.status in ("violated", "anchor-missing") or o.status is None]
    if not bad1:
        return None
    try:
        p2, an2 = second_view(ctx.prog)
    except Exception as e:      # the second view is an aid; without it the reports stand
        ctx.notes.append("second view not available: %r" % e)
        return None
    if not getattr(p2, "inlined", None):
        return None
    ctx2 = Ctx(ctx.prop, ctx.tier, p2, an2, label=getattr(ctx, "label", None))
    from . import rulelib
    try:
        rule_fn(ctx2)
    except Exception as e:
        import traceback
        ctx.notes.append("rules crashed on the second view: %s" % traceback.format_exc()[-500:])
        rulelib.set_current_program(ctx.prog)
        return None
    rulelib.set_current_program(ctx.prog)
    bad2 = {o.id: o for o in ctx2.obligations if o.status in ("violated", "anchor-missing") or o.status is None}
    info = {"inlined_helpers": p2.inlined[:40], "reports_first_view": [o.id for o in bad1], "reports_second_view": sorted(bad2)}
    if not bad2:
        for o in bad1:
            o.detail = "withdrawn: holds once the helpers are inlined (%s); first view said: %s" % (
                ", ".join(k.split("::")[-1] for k in p2.inlined[:6]), (o.detail or "")[:200])
            o.status = "ok"
        return info
    both = [o for o in bad1 if o.id in bad2]
    if both:
        for o in bad1:
            if o.id not in bad2:
                o.detail = "withdrawn: not confirmed with helpers inlined; first view said: %s" % (o.detail or "")[:200]
                o.status = "ok"
    else:
        # nothing is confirmed by both views: the first view's reports are withdrawn, and what only the second view says is
        # recorded but not reported (the second view exists to confirm, its own artefacts must not become alarms)
        for o in bad1:
            o.detail = "withdrawn: not confirmed with helpers inlined; first view said: %s" % (o.detail or "")[:200]
            o.status = "ok"
        info["second_view_only"] = sorted(bad2)
    return info


def evaluate_tree(root, props=None):
    """run the rules of the given properties on the tree at `root` (no evidence written);
    returns {prop: {"violated": [...], "undecided": [...], "n": int}}"""
    import importlib
    facts, _ = ensure_facts(root, "lib")
    prog = Program(facts)
    an = Analysis(prog, max_rounds=40)
    known = load_known()
    out = {}
    for prop in props or ALL_PROPS:
        try:
            mod = importlib.import_module("rss.rules.%s" % prop)
        except ModuleNotFoundError:
            continue
        ctx = Ctx(prop, "quick", prog, an, label=root)
        err = None
        try:
            mod.rules(ctx)
            cross_check(ctx, mod.rules)
        except Exception as e:  # a crashing rule on a mutated tree is reported, not hidden
            import traceback
            err = traceback.format_exc()[-600:]
        kk = {k["key"] for k in known.get("known", []) if k.get("property") == prop}
        out[prop] = {
            "violated": [(o.id, o.status, o.loc, o.detail[:300]) for o in ctx.obligations
                         if o.status in ("violated", "anchor-missing") or o.status is None and False],
            "undecided": [o.id for o in ctx.obligations if o.status == "undecided"],
            "n": len(ctx.obligations), "error": err,
        }
    return out



def _rules_on(root, prop, mode="lib"):
    """(violated ids, obligations count, error) of one property's rules on the tree at root"""
    import importlib
    facts, _ = ensure_facts(root, mode)
    prog = Program(facts)
    an = Analysis(prog, max_rounds=40)
    mod = importlib.import_module("rss.rules.%s" % prop)
    ctx = Ctx(prop, "thorough", prog, an, label=root)
    err = None
    try:
        mod.rules(ctx)
        cross_check(ctx, mod.rules)
    except Exception:
        import traceback
        err = traceback.format_exc()[-400:]
    bad = [(o.id, o.loc, o.detail[:200]) for o in ctx.obligations if o.status in ("violated", "anchor-missing")]
    return bad, len(ctx.obligations), err, {"units": len(prog.units), "bodies": len(prog.bodies)}


def _seed_job(args):
    prop, sid, patch = args
    import shutil
    os.environ["RSS_CACHE"] = "/var/tmp/rss_cache_thorough_%s" % prop
    work = "/var/tmp/rss_thorough_%s/%s" % (prop, sid)
    shutil.rmtree(work, ignore_errors=True)
    os.makedirs(work)
    try:
        subprocess.run(["rsync", "-a", "--exclude", "target", "--exclude", ".git", REPO + "/", work + "/"], check=True)
        r = subprocess.run("patch -p1 --no-backup-if-mismatch < %s" % patch, cwd=work, shell=True,
                           stdout=subprocess.PIPE, stderr=subprocess.STDOUT, text=True)
        if r.returncode != 0:
            return sid, {"applied": False}
        bad, n, err, _ = _rules_on(work, prop)
        return sid, {"applied": True, "reported_by": [b[0] for b in bad][:8], "error": err}
    except Exception as e:
        return sid, {"applied": False, "error": repr(e)}
    finally:
        shutil.rmtree(work, ignore_errors=True)


def thorough_default(ctx):
    """thorough tier: the same rules over (a) all targets, (b) the release profile; (c) the seeded corpus of this
    property: every recorded breaking change is applied to a scratch copy (removed afterwards) and must be reported"""
    import shutil
    from concurrent.futures import ProcessPoolExecutor
    prop = ctx.prop
    extra = {"broken": []}
    if prop in WITNESS_PROPS:
        w = run_witnesses(ctx)
        extra["broken"] += w.pop("broken", [])
        extra.update(w)
    for mode, label in (("all", "all_targets"), ("release", "release_profile")):
        try:
            bad, n, err, info = _rules_on(REPO, prop, mode)
            extra[label] = {"obligations": n, "violations": [b[0] for b in bad], "error": err, **info}
            for b in bad:
                o = ctx.ob("thorough.%s.%s" % (label, b[0].split("/", 1)[1]), "re-run", "-", "same rule on the %s build" % label)
                o.loc = b[1]
                ctx.bad(o, b[2])
            if err:
                extra["broken"].append("rules crashed on %s facts: %s" % (label, err[-200:]))
        except Exception as e:
            extra["broken"].append("%s analysis failed: %r" % (label, e))
    seeds_dir = os.path.join(VERIF, "seeded")
    jobs = []
    expect = {}
    table = os.path.join(VERIF, "seeded", "DETECTION.json")
    det = json.load(open(table)) if os.path.exists(table) else {}
    for sid in sorted(os.listdir(seeds_dir)) if os.path.isdir(seeds_dir) else []:
        mp = os.path.join(seeds_dir, sid, "meta.json")
        if not os.path.exists(mp):
            continue
        own = json.load(open(mp)).get("property") == prop
        listed = any(x.startswith(prop + "/") for x in det.get(sid, {}).get("by", []))
        if own or listed:
            jobs.append((prop, sid, os.path.join(seeds_dir, sid, "patch.diff")))
            expect[sid] = "own" if own else "listed"
    res = {}
    if jobs:
        with ProcessPoolExecutor(min(8, len(jobs))) as ex:
            for sid, r in ex.map(_seed_job, jobs):
                res[sid] = r
    shutil.rmtree("/var/tmp/rss_thorough_%s" % prop, ignore_errors=True)
    shutil.rmtree("/var/tmp/rss_cache_thorough_%s" % prop, ignore_errors=True)
    applied = [s for s, r in res.items() if r.get("applied")]
    detected = [s for s in applied if res[s].get("reported_by")]
    extra["seeded"] = {
        "corpus": len(jobs), "applied": len(applied), "skipped_patch_does_not_apply": sorted(set(res) - set(applied)),
        "detected": len(detected), "missed": sorted(set(applied) - set(detected)),
        "per_seed": {s: {"expected": expect[s], **res[s]} for s in sorted(res)},
    }
    print("   thorough: all-targets %s, release %s, seeded corpus %d applied / %d detected%s" % (
        "ok" if not extra.get("all_targets", {}).get("violations") else "VIOLATIONS",
        "ok" if not extra.get("release_profile", {}).get("violations") else "VIOLATIONS",
        len(applied), len(detected), (" (missed: %s)" % ", ".join(sorted(set(applied) - set(detected)))) if len(applied) != len(detected) else ""))
    return extra



WITNESS_PROPS = ("C01", "C10", "C11", "C13")


def run_witnesses(ctx):
    """compile-fail witnesses: programs outside `solution` that must not type-check (cargo +nightly test --doc)"""
    import re
    import shutil
    import tempfile
    wdir = os.path.join(VERIF, "fixtures", "witness")
    tgt = tempfile.mkdtemp(prefix="rss-witness-", dir="/var/tmp")
    try:
        lock = os.path.join(REPO, "Cargo.lock")
        if os.path.exists(lock):
            shutil.copy(lock, os.path.join(wdir, "Cargo.lock"))
        r = subprocess.run("cargo +nightly test --doc --offline", cwd=wdir, shell=True, text=True,
                           env=dict(os.environ, CARGO_TARGET_DIR=tgt, CARGO_NET_OFFLINE="true"),
                           stdout=subprocess.PIPE, stderr=subprocess.STDOUT)
        out = r.stdout
        tests = re.findall(r"test src/lib.rs - (\w+) \(line (\d+)\)(?: - compile fail)? \.\.\. (ok|FAILED)", out)
        res = {}
        for name, line, st in tests:
            res.setdefault(name, []).append(st)
        for name, sts in sorted(res.items()):
            o = ctx.ob("witness.%s" % name, "compile-fail", "fixtures/witness", "witness %s: the offending program fails to build, its twin builds" % name)
            ctx.decide(o, all(x == "ok" for x in sts) and len(sts) == 2, "rejected with the expected error code; twin compiles",
                       "the witness pair no longer behaves as expected (%s): an outside crate can now reach what was private" % sts)
        if len(res) < 9:
            return {"broken": ["witness run produced %d of 9 results: %s" % (len(res), out[-300:])], "witnesses": res}
        return {"witnesses": {k: v for k, v in res.items()}}
    finally:
        shutil.rmtree(tgt, ignore_errors=True)
