"""C14 - start solution is an optimum of the per-type covering circulation.

Optimality over all circulations of an input-dependent network is not statically decidable and is
NOT claimed.  Decided: the wiring conditions without which the network is not the documented one."""
from ..rulelib import *
from . import flownet, ties

NOTE = ("Static wiring checks of the min-cost-flow construction (MIR of solve_for_vehicle_type): role classification of the "
        "four edge constructions, provenance of bounds and costs, connection arcs inside the loop over "
        "Network::predecessors, label/closure mapping of network_simplex, tie-consistent predecessor/successor "
        "enumeration, flow decoding driven by the flow amount. Optimality itself is NOT decided.")

COSTS = flownet.COSTS
SFVT = flownet.SFVT
MCF = "solver::min_cost_flow_solver::MinCostFlowSolver"


def decoding(ctx, fd):
    """R4: the number of tours continued/created over an in-edge is its flow amount"""
    o = ctx.ob("R4.decoding-uses-flow-amount", "T12", SFVT,
               "every unit of flow on an in-edge is decoded (the flow amount is used as a count, not only tested for zero)")
    uses = []   # (closure key, instr, kind)
    for k in ctx.prog.family(SFVT):
        f2 = ctx.fd(k)
        if not f2.body.is_closure:
            continue
        # locals holding flow[..].1 : assign from a place with tuple field 1 whose base derives from an Index on the flow vector
        flow_vals = set()
        for ins in f2.body.instrs():
            if ins.kind == "assign" and ins.ops:
                for op in ins.ops:
                    if op.place is not None and any(p["k"] == "field" and p.get("tuple") and p["i"] == 1 for p in op.place.proj):
                        at = f2.slice(seed_locals=[op.place.local], control=False)["atoms"]
                        if any(a.startswith("capture:") for a in at) and has_method(at, "core::ops::index::Index::index"):
                            if ins.rv_kind() == "use":
                                flow_vals.add(ins.place.local)
                            uses.append((k, ins, "cmp" if ins.rv_kind() == "binop" and ins.rv["op"] in ("Eq", "Ne", "Gt", "Lt", "Ge", "Le") else
                                         ("count" if ins.rv_kind() in ("cast", "use") else ins.rv_kind())))
        # forward uses of copied flow values
        changed = True
        while changed:
            changed = False
            for ins in f2.body.instrs():
                if ins.kind == "assign" and ins.rv_kind() in ("use", "cast") and ins.ops and ins.ops[0].place is not None \
                        and ins.ops[0].place.is_local and ins.ops[0].place.local in flow_vals and ins.place.local not in flow_vals:
                    flow_vals.add(ins.place.local)
                    changed = True
        for ins in f2.body.instrs():
            if ins.kind == "assign" and ins.rv_kind() == "binop" and any(op.place is not None and op.place.is_local and op.place.local in flow_vals for op in ins.ops):
                uses.append((k, ins, "cmp" if ins.rv["op"] in ("Eq", "Ne", "Gt", "Lt", "Ge", "Le") else "arith"))
            if ins.kind == "call" and any(op.place is not None and op.place.is_local and op.place.local in flow_vals for op in ins.args):
                uses.append((k, ins, "count-arg:%s" % (ins.callee or "?").split("::")[-1]))
    kinds = {u[2] for u in uses}
    counts = [u for u in uses if u[2].startswith("count-arg")]
    if not uses:
        ctx.undecided(o, "no read of the flow amount found in the decoding closures")
    elif counts:
        ctx.ok(o, "flow amount is passed as a count to %s" % ", ".join(sorted({u[2][10:] for u in counts})))
    elif kinds <= {"cmp", "count", "use", "cast"} and "cmp" in kinds:
        ctx.bad(o, "the flow amount on an in-edge is only compared (with zero) and never used as a count: an edge carrying "
                   "several units is decoded into a single tour", loc=uses[0][1].line())
    else:
        ctx.undecided(o, "uses of the flow amount not recognised: %s" % sorted(kinds))
    o = ctx.ob("R4.decoding-accumulates-tours-per-node", "T12", SFVT,
               "the tours ending at a node are accumulated (entry/or_default/push), never overwritten by a fresh list")
    bad = []
    n_entries = 0
    for k in ctx.prog.family(SFVT):
        f2 = ctx.fd(k)
        for c in f2.body.calls():
            nm = c.callee or ""
            if nm.endswith("HashMap::insert") and len(c.args) == 3 and any("Vec<usize>" in t for t in c.targs):
                bad.append(c)
            if nm.endswith("HashMap::entry") and any("Vec<usize>" in t for t in c.targs):
                n_entries += 1
    ctx.decide(o, n_entries >= 2 and not bad, "%d entry() updates, no overwriting insert" % n_entries,
               "HashMap::insert at %s overwrites the list of tours ending at a node: when several coupled vehicles arrive at the same activity all but "
               "one tour are forgotten and the later pop().unwrap() panics" % bad[0].line() if bad else "entry() updates not found",
               loc=bad[0].line() if bad else None)
    must_depend(ctx, "R4.decoding-order", "T1", SFVT, "ret", [call(N("nodes_of_vehicle_type_sorted_by_start")), call(N("get_start_depot_node"))],
                "tours are decoded in chronological order of the type's nodes and start at the start-depot node of the depot edge")


def every_type_is_solved(ctx, rid="R4"):
    """MinCostFlowSolver::solve builds a start solution for EVERY vehicle type: the per-type result is stored on every round of the loop
    over the types (no condition, `continue` or `break` in front of it)"""
    from .C03 import only_loop_controls
    key = "solver::min_cost_flow_solver::MinCostFlowSolver::solve"
    o, fd = ctx.require_fn("%s.every-vehicle-type-is-solved" % rid, "T1", key,
                           "inside the loop over the vehicle types the tours of solve_for_vehicle_type are stored unconditionally")
    if fd is None:
        return
    ins_ = [c for c in fd.body.calls() if (c.callee or "").endswith("HashMap::insert") and len(c.args) == 3
            and slice_has_call_def(fd.slice_operand_pure(c, c.args[2]), SFVT)]
    if not ins_:
        ctx.undecided(o, "no insert of the per-type tours found")
        return
    oth = only_loop_controls(fd, ins_[0])
    ctx.decide(o, not oth, "only the loop over the vehicle types controls the insert",
               "a vehicle type can be skipped, or the loop left early (extra condition at %s): the departure segments of the remaining types "
               "are covered by no vehicle in the start solution" % (oth[0][0].line() if oth else "?"), loc=ins_[0].line())


def rules(ctx):
    every_type_is_solved(ctx)
    from . import formulas as _fm
    _fm.unit_agreement(ctx, "R1")      # arc costs and the spawning cost price time in seconds, like the objective they stand for
    from .C02 import capacity_capped_by_total
    from . import formulas
    formulas.flow_network_details(ctx, "R1")
    from .C07 import required_vehicles_pairing
    required_vehicles_pairing(ctx, "R2")     # the demand that the lower bound of a trip arc enforces
    capacity_capped_by_total(ctx)      # the capacity of a depot's spawn arc (capacity_of -> capacity_for) is capped by the depot's total
    # "connectable under the timing rules": the turnaround tables the arcs are enumerated with (shared with C17)
    from .C17 import timing_rule
    before = len(ctx.obligations)
    timing_rule(ctx)
    for o_ in ctx.obligations[before:]:
        o_.id = o_.id.replace("C14/R3.", "C14/R5.timing.")
    before = len(ctx.obligations)
    formulas.network_predicates(ctx, "R5")       # the overflow depot is infinitely far in both directions (arc costs)
    ctx.obligations[before:] = [o_ for o_ in ctx.obligations[before:] if "nowhere" in o_.id]
    ties.range_bound_rule(ctx, "R3.predecessors-keep-ties", N("predecessors"), "pred")
    ties.range_bound_rule(ctx, "R3.successors-keep-ties", N("successors"), "succ")
    fd, edges = flownet.edge_sites(ctx)
    o = ctx.ob("R1.edge-sites", "T8", SFVT, "the four EdgeLabel construction sites (trip, maintenance, connection, depot) are found")
    roles = sorted(str(e.role) for e in edges)
    ctx.decide(o, roles == ["connection", "depot", "maintenance", "trip"], "roles: %s" % roles, "edge constructions found: %s" % roles)
    # "cover every departure segment with its required (limit-capped) number of vehicles": the bounds of a trip arc (shared with
    # C07 and C06; round 8, C14h_2: the lower bound capped by the type's limit, the upper by the trip's -> lower > upper, no circulation)
    flownet.need(ctx, "R1.trip-lower-bound", edges, "trip", "lower_bound",
                 [call(N("number_of_vehicles_required_to_serve")), call(N("maximal_formation_count_for")), "param:2"],
                 "trip arcs must carry min(required vehicles, applicable formation limit of that trip)")
    flownet.need(ctx, "R1.connection-cost", edges, "connection", "cost",
                 [call(N("dead_head_time_between")), field(COSTS, "dead_head_trip"), call(N("idle_time_between")), field(COSTS, "idle")],
                 "connection arcs cost dead-head time and idle time at their rates")
    o, e = flownet.role(ctx, "R1.connection-cost-direction", edges, "connection",
                        "dead-head and idle time of a connection arc are taken from the predecessor to the head node")
    if e is not None and fd is not None:
        bad = []
        seen = 0
        TARGETS = (N("dead_head_time_between"), N("idle_time_between"))

        def arg_atoms(f, c, i, outer):
            """callees on the direct provenance of argument i of call c in f (the loop variable of `for pred in
            predecessors(..)` leads to `predecessors`); a parameter of a helper is continued at the helper's call"""
            ch, root = direct_chain(f, c.args[i], want_root=True)
            at = {call(x) for x in ch}
            if outer is not None and root is not None and 1 <= root <= f.body.argc:
                of, oc = outer
                if root - 1 < len(oc.args):
                    at |= {call(x) for x in direct_chain(of, oc.args[root - 1])}
            return at

        cs = fd.slice_operand_pure(e.instr, e.fields["cost"][0])
        for d in cs["defs"]:
            c = d.instr
            if c is None or c.kind != "call":
                continue
            sites = []
            if c.callee in TARGETS:
                sites.append((fd, c, None))
            elif (c.callee or "").startswith("solver::min_cost_flow_solver::") and c.callee in ctx.prog.bodies:
                # the cost was moved into a helper of the solver: look one level down
                f2 = ctx.fd(c.callee)
                sites += [(f2, c2, (fd, c)) for c2 in f2.body.calls() if c2.callee in TARGETS]
            for f, c2, outer in sites:
                seen += 1
                a1, a2 = arg_atoms(f, c2, 1, outer), arg_atoms(f, c2, 2, outer)
                p1, p2 = call(N("predecessors")) in a1, call(N("predecessors")) in a2
                if p2 and not p1:
                    bad.append(c2)
        if bad:
            ctx.bad(o, "%s at %s is asked for the reverse direction (head node first)" % ((bad[0].callee or "").split("::")[-1], bad[0].line()),
                    loc=bad[0].line())
        elif seen >= 2:
            ctx.ok(o, "%d calls, predecessor first" % seen)
        else:
            ctx.undecided(o, "the calls computing the connection cost are not in a recognised place (R1.connection-cost still requires them)")
    # idle time is waived only next to a depot: between trips and maintenance slots it is priced like in the objective
    o = ctx.ob("R1.connection-idle-waived-only-at-depots", "T12", SFVT,
               "the idle cost of a connection arc is left out only when one of its ends is a depot")
    if fd is not None:
        sites = []
        for f in hosts(ctx, SFVT, 1):
            sites += [(f, c) for c in f.body.calls() if c.callee == N("idle_time_between")]
        tests, wrong = set(), []
        for f, c in sites:
            for sw, callee, d in controlling_sources(f, c):
                nm = (callee or "").split("::")[-1]
                if callee and callee.startswith(ND("")) and nm.startswith("is_"):
                    tests.add(nm)
                    if nm in ("is_service", "is_maintenance"):
                        wrong.append((c, nm))
        if {"is_service", "is_maintenance"} <= tests or (wrong and tests & {"is_depot", "is_start_depot", "is_end_depot"}):
            # both non-depot kinds are asked for (possibly 'service or maintenance' = 'not a depot'): the combination is not decided here
            ctx.undecided(o, "idle cost under a combination of kind tests %s" % sorted(tests))
        elif wrong:
            ctx.bad(o, "whether idle time is priced (%s) is decided by %s(): waiting before or after a maintenance slot costs nothing in the flow "
                    "network although the objective charges it, so the flow optimum is not the cheapest fleet" % (wrong[0][0].line(), wrong[0][1]),
                    loc=wrong[0][0].line())
        elif sites and tests & {"is_depot", "is_start_depot", "is_end_depot"}:
            ctx.ok(o, "%d idle-time site(s) under %s" % (len(sites), sorted(tests)))
        else:
            ctx.undecided(o, "no kind test recognised around the idle cost (%d site(s))" % len(sites))
    else:
        ctx.undecided(o, "flow network builder not analysed")
    flownet.need(ctx, "R1.trip-cost", edges, "trip", "cost", [call(ND("duration")), field(COSTS, "service_trip")],
                 "trip arcs cost their duration at the service rate")
    flownet.need(ctx, "R1.maintenance-cost", edges, "maintenance", "cost", [call(ND("duration")), field(COSTS, "maintenance")],
                 "maintenance arcs cost their duration at the maintenance rate")
    flownet.need(ctx, "R1.depot-cost", edges, "depot", "cost",
                 [call(N("planning_days")), field(COSTS, "staff"), field(COSTS, "service_trip"), field(COSTS, "maintenance"),
                  field(COSTS, "dead_head_trip"), field(COSTS, "idle")],
                 "depot arcs carry the spawning cost (costliest of ALL five rates x 3 planning days x total lower bound): "
                 "a rate left out lets operating cost outweigh a vehicle")
    o, e = flownet.role(ctx, "R1.spawning-cost-scales-with-demand", edges, "depot", "the spawning cost scales with the total lower bound")
    if e is not None:
        at = e.fields["cost"][1]
        ctx.decide(o, call(N("number_of_vehicles_required_to_serve")) in at, "cost derives from the accumulated lower bounds",
                   "the spawning cost does not depend on the total lower bound", loc=e.instr.line())
    # connection arcs only along predecessors
    o, e = flownet.role(ctx, "R1.arcs-along-predecessors", edges, "connection",
                        "connection arcs are created only inside the loop over Network::predecessors of the head node")
    if e is not None and fd is not None:
        ctl = fd.slice(seed_blocks=[e.instr.bb])["atoms"]
        others = [x for x in edges if x is not e and call(N("predecessors")) in fd.slice(seed_blocks=[x.instr.bb], control=True)["atoms"]
                  and fd.cfg.dominates(e.instr.bb, x.instr.bb)]
        src = fd.slice_operand_pure(e.add_edge, e.add_edge.args[1])["atoms"] if e.add_edge is not None else set()
        ok = call(N("predecessors")) in ctl and e.add_edge is not None and call(N("predecessors")) in src
        ctx.decide(o, ok, "add_edge(pred, node) is control dependent on, and fed by, the predecessors iterator",
                   "the connection arc is not created from Network::predecessors", loc=e.instr.line())
    # the three split-node arcs join the left and right copy of the same node
    for r in ("trip", "maintenance", "depot"):
        o, e = flownet.role(ctx, "R1.%s-arc-joins-node-copies" % r, edges, r, "the %s arc goes from the left to the right copy of one node" % r)
        if e is not None and fd is not None:
            ok = e.add_edge is not None
            if ok:
                a = direct_def_instr(fd, e.add_edge.args[1])
                b = direct_def_instr(fd, e.add_edge.args[2])
                ok = a is not None and b is not None and a is not b
            ctx.decide(o, ok, "add_edge(left, right)", "add_edge operands are not two distinct node copies", loc=e.instr.line())
    # R2: simplex mapping (shared with C02.R6)
    from .C02 import flow_bounds
    before = len(ctx.obligations)
    flow_bounds(ctx)
    ctx.obligations[before:] = [x for x in ctx.obligations[before:] if not x.id.endswith("edge-sites")]
    for x in ctx.obligations[before:]:
        x.id = x.id.replace("C14/R6.", "C14/R2.")
    if fd is not None:
        decoding(ctx, fd)
    must_depend(ctx, "R4.solve-builds-schedule-from-flow", "T1", MCF + "::solve", "ret",
                [call(SFVT), call(S("from_tours")), call(MCF + "::distribute_maintenance_slots")],
                "the start schedule is built from the decoded tours of every vehicle type")
    must_depend(ctx, "R4.from_tours-spawns", "T1", S("from_tours"), "ret", [call(S("spawn_vehicle_for_path")), call(S("empty")), "param:1"],
                "Schedule::from_tours spawns one vehicle per decoded tour")
