"""C14 - start solution is an optimum of the per-type covering circulation.

Optimality over all circulations of an input-dependent network is not statically decidable.
Decided: the wiring conditions without which the network is not the documented one."""
from ..rulelib import *
from . import ties

NOTE = ("Static wiring checks of the min-cost-flow construction (dependence slices over MIR of "
        "solve_for_vehicle_type): arc sources, bounds and costs use the documented quantities; tie-consistency "
        "recogniser for Network::predecessors/successors; flow decoding is driven by positive in-edge flow. "
        "Optimality itself is NOT decided.")


def rules(ctx):
    ties.range_bound_rule(ctx, "R3.predecessors-keep-ties", N("predecessors"), "pred")
    ties.range_bound_rule(ctx, "R3.successors-keep-ties", N("successors"), "succ")
