"""C16 - the returned schedule is the product of all pipeline stages (T4 stage flow)."""
from ..rulelib import *

NOTE = ("Static stage-flow analysis (backward slices over MIR of server::solve_instance and its sibling "
        "internal::run): every pipeline stage's result must be in the dependence slice of the next stage's "
        "named operand, ending in the returned JSON. Decides the wiring on all paths; does not decide "
        "value-level equality of snapshots.")

MCF = "solver::min_cost_flow_solver::MinCostFlowSolver::solve"
IMPROVE = S("improve_depots")
SWI_NEW = "solver::local_search::ScheduleWithInfo::new"
SOLVE = "<rapid_solve::heuristics::parallel_local_search::ParallelLocalSearchSolver as rapid_solve::heuristics::Solver>::solve"
EVAL = "rapid_solve::objective::Objective::evaluate"
NDT = S("next_day_transition_of")
TWI_NEW = "solver::transition_local_search::TransitionWithInfo::new"
SETT = S("set_next_day_transitions")
REASSIGN = S("reassign_end_depots_consistent_with_transitions")
OUT = "server::create_output_json"
BUILD_LS = "solver::local_search::build_local_search_solver"
BUILD_TLS = "solver::transition_local_search::build_transition_local_search_solver"


def exists_call_with(ctx, fd, o, callee, argi, need, targ=None, need_targ=None, what=""):
    """some call site of `callee` (generic arg containing targ) whose operand argi has a call
    site of `need` in its slice"""
    sites = calls_to(fd, callee, targ)
    ctx.call_sites += len(sites)
    if not sites:
        return ctx.bad(o, "no call to %s%s in %s" % (callee.split("::")[-1], " for " + targ if targ else "",
                                                      fd.body.key))
    for ins in sites:
        sl = arg_slice(fd, ins, argi)
        hit = slice_has_call_def(sl, need, need_targ)
        if hit is not None:
            return ctx.ok(o, "%s at %s receives the result of %s at %s" % (
                callee.split("::")[-1], ins.line(), need.split("::")[-1], hit.line()),
                sample={"sink": ins.line(), "source": hit.line()})
    return ctx.bad(o, "the result of %s never reaches operand %d of %s (%s): the stage result is discarded"
                   % (need.split("::")[-1], argi, callee.split("::")[-1],
                      ", ".join(i.line() for i in sites)), loc=sites[0].line())


def _schedule_literal_field(fd, name):
    """(instr, operand) of field `name` in the Schedule struct literals that reach the result"""
    out = []
    for d in fd.ret_slice()["defs"]:
        i = d.instr
        if i is not None and i.kind == "assign" and i.rv_kind() == "agg" and i.rv.get("adt") == SCHEDULE and name in (i.rv.get("fields") or []):
            out.append((i, i.ops[i.rv["fields"].index(name)]))
    return out


def violation_of_argument(ctx, rid):
    """set_next_day_transitions: cached violation = sum of Transition::maintenance_violation over the transitions handed in"""
    from .. import shape as _sh
    o, fd = ctx.require_fn("%s.set-transitions.violation-of-the-argument" % rid, "T12", SETT,
                           "the maintenance violation cached by set_next_day_transitions is the sum of maintenance_violation() over its argument")
    if fd is None:
        return
    stores = [d for d in fd.ret_slice()["defs"] if d.kind == "assign" and d.info.get("wfield") == ("maintenance_violation",) and d.instr is not None
              and d.instr.ops]
    lit = _schedule_literal_field(fd, "maintenance_violation")
    if len(stores) + len(lit) != 1:
        ctx.undecided(o, "%d stores of maintenance_violation" % (len(stores) + len(lit)))
        return
    ins, vop = (stores[0].instr, stores[0].instr.ops[0]) if stores else lit[0]
    e = _sh.normalise(_sh.expr(fd, vop))
    calls, fields, params = _sh.calls_of(e), _sh.fields_of(e), _sh.params_of(e)
    inner = set()
    for c in calls:
        if c.startswith("agg:closure"):
            continue
    for k in ctx.prog.family(SETT):
        if k != SETT:
            inner |= {(c.callee or "").split("::")[-1] for c in ctx.prog.bodies[k].calls() if (c.callee or "").startswith(TRANSITION + "::")}
    if "maintenance_counter" in inner and "maintenance_violation" not in inner:
        ctx.bad(o, "the cached violation adds up maintenance_counter(): cycles with a negative counter (maintained in time) are counted as "
                "negative violation and hide the violation of the others", loc=ins.line())
    elif "next_period_transitions" in fields and 2 not in params:
        ctx.bad(o, "the cached violation is summed over the transitions the schedule had before (self.next_period_transitions), not over the "
                "argument that is stored", loc=ins.line())
    elif 2 in params and "maintenance_violation" in inner:
        ctx.ok(o, _sh.show(e)[:120])
    else:
        ctx.undecided(o, "form not recognised: %s" % _sh.show(e)[:120])


def every_vehicle_type(ctx, key, tag, fd=None):
    if fd is None:
        fd = ctx.fd(key)
        if fd is None:
            o = ctx.ob("%s.flow-06c-every-vehicle-type" % tag, "T1", key, "anchor")
            o.status = "anchor-missing"
            o.detail = "function %s not found" % key
            return
    o = ctx.ob("%s.flow-06c-every-vehicle-type" % tag, "T1", key,
               "inside the loop over all vehicle types the optimised transition is stored unconditionally")
    from .C03 import only_loop_controls
    ins_ = [c for c in fd.body.calls() if (c.callee or "").endswith("HashMap::insert") and any("Transition" in t for t in c.targs)]
    if not ins_:
        ctx.bad(o, "no insert into the map of optimised transitions found")
    else:
        oth = only_loop_controls(fd, ins_[0])
        ctx.decide(o, not oth and call("model::vehicle_types::VehicleTypes::iter") in fd.slice(seed_blocks=[ins_[0].bb])["atoms"],
                   "only the loop over vehicle_types controls the insert",
                   "a vehicle type can be skipped (extra condition at %s): set_next_day_transitions then installs a map without it and "
                   "next_day_transition_of panics for that type" % (oth[0][0].line() if oth else "?"), loc=ins_[0].line())


def chain(ctx, key, tag):
    o, fd = ctx.require_fn("%s.flow-01-improve-depots" % tag, "T4", key,
                           "start solution of the min-cost-flow solver is the receiver of improve_depots")
    if fd is None:
        return
    exists_call_with(ctx, fd, o, IMPROVE, 0, MCF)
    o = ctx.ob("%s.flow-02-start-info" % tag, "T4", key, "improved start schedule is wrapped for the local search")
    exists_call_with(ctx, fd, o, SWI_NEW, 0, IMPROVE)
    o = ctx.ob("%s.flow-03-local-search" % tag, "T4", key,
               "local search (built by build_local_search_solver) starts from the wrapped start schedule")
    exists_call_with(ctx, fd, o, SOLVE, 1, SWI_NEW, targ="ScheduleWithInfo")
    o = ctx.ob("%s.flow-03b-solver-built" % tag, "T4", key, "the solver that runs is the one built for this network")
    exists_call_with(ctx, fd, o, SOLVE, 0, BUILD_LS, targ="ScheduleWithInfo")
    o = ctx.ob("%s.flow-03c-no-maintenance-branch" % tag, "T4", key,
               "without maintenance the start schedule itself is evaluated as the search result")
    exists_call_with(ctx, fd, o, EVAL, 1, SWI_NEW)
    o = ctx.ob("%s.flow-04-transition-start" % tag, "T4", key,
               "transition optimisation starts from the cycles of the local-search result")
    sites = calls_to(fd, NDT)
    good = None
    for ins in sites:
        sl = arg_slice(fd, ins, 0)
        if slice_has_call_def(sl, SOLVE, "ScheduleWithInfo") and slice_has_call_def(sl, EVAL):
            good = ins
    ctx.decide(o, good is not None, "next_day_transition_of is read from the search result",
               "no next_day_transition_of call reads the local-search result / the evaluated start schedule")
    o = ctx.ob("%s.flow-05-transition-solve" % tag, "T4", key,
               "the transition solver is run on those cycles")
    exists_call_with(ctx, fd, o, SOLVE, 1, NDT, targ="TransitionWithInfo")
    o = ctx.ob("%s.flow-05b-transition-solver-built" % tag, "T4", key,
               "the transition solver is built from the local-search result")
    exists_call_with(ctx, fd, o, BUILD_TLS, 0, SOLVE, need_targ="ScheduleWithInfo")
    o = ctx.ob("%s.flow-06-set-transitions" % tag, "T4", key,
               "the optimiser's cycles are installed with set_next_day_transitions")
    exists_call_with(ctx, fd, o, SETT, 1, SOLVE, need_targ="TransitionWithInfo")
    o = ctx.ob("%s.flow-06b-set-transitions-receiver" % tag, "T4", key,
               "they are installed into the local-search result")
    exists_call_with(ctx, fd, o, SETT, 0, SOLVE, need_targ="ScheduleWithInfo")
    o = ctx.ob("%s.flow-07-reassign-end-depots" % tag, "T4", key,
               "end depots are aligned on the schedule that carries the optimised cycles")
    exists_call_with(ctx, fd, o, REASSIGN, 0, SETT)
    o = ctx.ob("%s.flow-07b-alignment-unconditional" % tag, "T1", key, "the end-depot alignment runs on every path of the pipeline (it is not skipped under a condition)")
    rc = calls_to(fd, REASSIGN)
    if len(rc) != 1:
        ctx.bad(o, "expected one call of reassign_end_depots_consistent_with_transitions, found %d" % len(rc))
    else:
        cs = controlling_sources(fd, rc[0])
        ctx.decide(o, not cs, "no condition controls the call", "the alignment is only performed under a condition (%s at %s): instances taking the "
                   "other branch are answered with end depots that do not match the reported cycles" % (
                       (cs[0][1] or "a test").split("::")[-1], cs[0][0].line()) if cs else "", loc=rc[0].line())
    o = ctx.ob("%s.flow-08-final-info" % tag, "T4", key, "the aligned schedule is wrapped as final schedule")
    exists_call_with(ctx, fd, o, SWI_NEW, 0, REASSIGN)
    o = ctx.ob("%s.flow-09-final-evaluate" % tag, "T4", key, "the final schedule is evaluated")
    exists_call_with(ctx, fd, o, EVAL, 1, REASSIGN)
    o = ctx.ob("%s.flow-10-output" % tag, "T4", key, "the JSON is built from that evaluated final solution")
    sites = calls_to(fd, OUT)
    good = None
    for ins in sites:
        sl = arg_slice(fd, ins, 0)
        for d in sl["defs"]:
            i2 = d.instr
            if i2 is not None and i2.kind == "call" and i2.callee == EVAL:
                if slice_has_call_def(arg_slice(fd, i2, 1), REASSIGN):
                    good = (ins, i2)
    ctx.decide(o, good is not None,
               "create_output_json receives the evaluation of the end-depot-aligned schedule",
               "create_output_json is not fed by an evaluation of the end-depot-aligned schedule",
               loc=sites[0].line() if sites else None)
    o = ctx.ob("%s.flow-11-return" % tag, "T4", key, "the function returns that JSON")
    rs = fd.ret_slice()
    ctx.decide(o, slice_has_call_def(rs, OUT) is not None, "return value comes from create_output_json",
               "return value does not come from create_output_json")
    every_vehicle_type(ctx, key, tag, fd)
    # no Schedule -> Schedule stage after the alignment (C05.R2 shares this)
    o = ctx.ob("%s.flow-12-nothing-after-alignment" % tag, "T4", key,
               "no schedule-producing call sits between the end-depot alignment and the output")
    if good is not None:
        bad = []
        sl = arg_slice(fd, good[1], 1)
        re_call = slice_has_call_def(sl, REASSIGN)
        for d in sl["defs"]:
            i2 = d.instr
            if i2 is None or i2.kind != "call" or not i2.callee or i2 is re_call:
                continue
            if not i2.callee.startswith(SCHEDULE + "::"):
                continue
            b2 = ctx.prog.bodies.get(i2.callee)
            sg = ctx.prog.sigs.get(i2.callee)
            if sg is not None and SCHEDULE.split("::")[-1] in sg.get("output_s", "") and "&" not in sg.get("output_s", ""):
                # a Schedule-returning call in the slice: fine only if it is upstream of the alignment
                up = arg_slice(fd, re_call, 0)
                if not any(dd.instr is i2 for dd in up["defs"]):
                    bad.append(i2)
        ctx.decide(o, not bad, "the aligned schedule reaches the output unmodified",
                   "schedule-producing call(s) after the alignment: %s" % ", ".join(
                       "%s at %s" % (b.callee.split("::")[-1], b.line()) for b in bad),
                   loc=bad[0].line() if bad else None)
    else:
        ctx.bad(o, "cannot be decided: output wiring broken (see flow-10)")


def rules(ctx):
    from . import formulas
    before = len(ctx.obligations)
    formulas.network_predicates(ctx, "R3")
    ctx.obligations[before:] = [o for o in ctx.obligations[before:] if "maintenance_considered" in o.id]
    chain(ctx, "server::solve_instance", "R1.server")
    chain(ctx, "internal::run", "R2.internal")
    # the alignment itself (shared with C05.R1): each end depot is the successor's start depot, for every vehicle
    from . import C05
    before = len(ctx.obligations)
    C05.rules(ctx)
    ctx.obligations[before:] = [o for o in ctx.obligations[before:] if "/R1." in o.id]
    for o in ctx.obligations[before:]:
        o.id = o.id.replace("C16/R1.", "C16/R4.alignment.")
    C05.successor_rules(ctx, "R4.alignment")
    # the reported cycles are the schedule's cycles, all of them (shared with C03.R2 / C05.R3)
    from . import C03
    before = len(ctx.obligations)
    C03.completeness(ctx)
    ctx.obligations[before:] = [o for o in ctx.obligations[before:] if "rotation-cycle" in o.id or "every-vehicle-reported" in o.id]
    for o in ctx.obligations[before:]:
        o.id = o.id.replace("C16/R2.", "C16/R5.json.")
    C03.cycle_order_preserved(ctx, "R5.json")     # the order chosen by the transition optimisation is what is written out
    # R3: set_next_day_transitions stores its argument
    o, fd = ctx.require_fn("R3.set-transitions-stores-argument", "T1", SETT,
                           "set_next_day_transitions puts its argument into next_period_transitions")
    if fd is not None:
        ok = False
        for d in fd.ret_slice()["defs"]:
            if d.kind == "assign" and d.info.get("wfield") == ("next_period_transitions",):
                sl = fd.slice(seed_locals=d.uses)
                if "param:2" in sl["atoms"]:
                    ok = True
        for op_ in _schedule_literal_field(fd, "next_period_transitions"):     # struct literal `Schedule { next_period_transitions: x, ..copy }`
            if "param:2" in fd.slice_operand_pure(op_[0], op_[1])["atoms"]:
                ok = True
        merged = None
        if ok:
            from .. import shape as _sh
            for d in fd.ret_slice()["defs"]:
                if d.kind == "assign" and d.info.get("wfield") == ("next_period_transitions",) and d.instr is not None and d.instr.ops:
                    e = _sh.expr(fd, d.instr.ops[0])
                    if e[0] == "call" and "next_period_transitions" in _sh.fields_of(e):
                        merged = (d.instr, _sh.show(e)[:100])
        violation_of_argument(ctx, "R3")
        if merged:
            ctx.bad(o, "what is stored is %s: the argument is merged with the schedule's old transitions (im's union keeps the entries of the "
                    "receiver), so the optimised cycles are dropped" % merged[1], loc=merged[0].line())
        else:
            ctx.decide(o, ok, "field store of next_period_transitions derives from parameter 2",
                       "no store of parameter 2 into next_period_transitions reaches the result")
