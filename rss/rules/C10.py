"""C10 - every reachable schedule satisfies the structural invariants."""
from ..engine import run_controls
from ..rulelib import *
from . import common
from .C01 import tour_producers, type_guards
from .C02 import growth_guards, depot_limits, limit_combination
from .C03 import formations_in_step

NOTE = ("Union of the producer-set and guard rules behind each invariant (tours: C01 rules; formation/track/depot limits: "
        "C02 rules; formation <-> tour membership: C03.R3) plus: listings rebuilt together with the maps they index, "
        "sorted insertion/removal by binary search, every modified vehicle handed to the cycle bookkeeping, "
        "batched cycle updates seeing each other's new tours, fresh ids taken from the counter before it is advanced. "
        "Decided on MIR for all paths; the invariants as values are NOT decided.")

BS = ("core::slice::<impl [T]>::binary_search", "alloc::vec::Vec::binary_search")
UTV = S("update_transitions_and_violation_fast")
RTV = S("recompute_transitions_and_violation_fast")
DUMMY_FROM = "model::base_types::VehicleIdx::dummy_from"
VEHICLE_FROM = "model::base_types::VehicleIdx::vehicle_from"


def listings(ctx):
    pairs = {("vehicles", "vehicle_ids_grouped_and_sorted"), ("vehicle_ids_grouped_and_sorted", "vehicles"),
             ("dummy_tours", "dummy_ids_sorted"), ("dummy_ids_sorted", "dummy_tours"), ("vehicles", "tours")}
    sites = common.coupled_updates(ctx, "R1", SCHEDULE, common.SCHEDULE_PAIRS, floor=13, only_pairs=pairs)
    # sorted listings are edited at a position found by binary search
    n = 0
    for key in sorted(ctx.prog.bodies):
        if not key.startswith(SCHEDULE + "::") or getattr(ctx.prog.bodies[key], "test_unit", False):
            continue
        fd = None
        for c in ctx.prog.bodies[key].calls():
            if not (c.callee or "").startswith("alloc::vec::Vec::") or not any(t.endswith("VehicleIdx") for t in c.targs[:1]):
                continue
            op = c.callee.split("::")[-1]
            if op not in ("insert", "remove", "push", "swap_remove"):
                continue
            fd = fd or ctx.fd(key)
            # only the two id listings (working copies of the fields, or the &mut parameters that carry them)
            recv = fd.slice_operand_pure(c, c.args[0])["atoms"]
            is_listing = field(SCHEDULE, "vehicle_ids_grouped_and_sorted") in recv or field(SCHEDULE, "dummy_ids_sorted") in recv \
                or any(a.startswith("param:") and "Vec<model::base_types::VehicleIdx>" in fd.body.local_ty(int(a[6:])) for a in recv if a[6:].isdigit())
            if not is_listing:
                continue
            n += 1
            o = ctx.ob("R2.%s.%s#%d.sorted-edit" % (key.split("::")[-1], op, n), "T1", key,
                       "%s: the id listing is edited with %s at a position found by binary search" % (key.split("::")[-1], op))
            o.loc = c.line()
            if op in ("push", "swap_remove"):
                ctx.bad(o, "%s on a sorted id listing at %s breaks the order" % (op, c.line()), loc=c.line())
                continue
            at = fd.slice_operand_pure(c, c.args[1])["atoms"]
            ok = any(has_method(at, b) for b in BS) or any("binary_search" in a for a in at)
            ctx.decide(o, ok, "index <- binary_search", "the index of %s at %s does not come from a binary search on the listing" % (op, c.line()), loc=c.line())
    o = ctx.ob("R2.sites", "T8", SCHEDULE, "edits of the sorted id listings are found (floor 6)")
    ctx.floor(o, n, 6, "listing edits")
    return sites


CHANGED = {
    "spawn_vehicle_for_path": ["call:" + VEHICLE_FROM],
    "replace_vehicle_by_dummy": ["param:2"],
    "add_path_to_vehicle_tour": ["param:2"],
    "remove_segment": ["param:3"],
    "fit_reassign": ["param:3", "param:4"],
    "override_reassign": ["param:3", "param:4"],
    "reassign_end_depots_consistent_with_transitions": [call(S("vehicles_iter_all"))],
}


def cycles_follow_vehicles(ctx, sites):
    for fn, need in CHANGED.items():
        o, fd = ctx.require_fn("R3.%s.changed-vehicles-reported" % fn, "T1", S(fn),
                               "%s hands every vehicle whose tour it changes to the rotation-cycle bookkeeping" % fn)
        if fd is None:
            continue
        ut = calls_to(fd, UTV)
        if not ut:
            ctx.bad(o, "%s does not call update_transitions_and_violation_fast" % fn)
            continue
        at = set()
        for c in ut:
            at |= fd.slice_operand_pure(c, c.args[3])["atoms"]
        miss = [r for r in need if r not in at]
        ctx.decide(o, not miss, "changed_vehicles contains %s" % ", ".join(need), "changed_vehicles lacks %s" % fmt_missing(miss), loc=ut[0].line())
    for fn in ("improve_depots", "reassign_end_depots_greedily", "recompute_transitions_for"):
        o, fd = ctx.require_fn("R3.%s.transitions-refreshed" % fn, "T1", S(fn), "%s refreshes the rotation cycles of what it changes" % fn)
        if fd is None:
            continue
        ok = bool(calls_to(fd, UTV) or calls_to(fd, RTV))
        ctx.decide(o, ok, "calls the cycle bookkeeping", "no call to update_/recompute_transitions_and_violation_fast")
    # batched updates: a vehicle updated earlier in the batch is visible to later ones
    o, fd = ctx.require_fn("R3.batched-updates-see-each-other", "T10", UTV,
                           "inside one batch every vehicle that stays in the schedule is recorded in the map of already updated tours "
                           "that later cycle updates consult")
    if fd is not None:
        upd = [c for c in fd.body.calls() if c.callee in (TR("update_vehicle"), TR("add_vehicle_to_own_cycle"))]
        consult = [c for c in fd.body.calls() if c.callee in (TR("update_vehicle"), TR("remove_vehicle"))]
        maps = set()
        for c in consult:
            ai = 3 if c.callee == TR("update_vehicle") else 2
            a = c.args[ai]
            if a.place is not None:
                maps |= fd.bases(a.place.local) or {a.place.local}
        inserts = [c for c in fd.body.calls() if (c.callee or "").endswith("HashMap::insert") and c.args and c.args[0].place is not None
                   and (fd.bases(c.args[0].place.local) & maps)]
        cd = fd.cfg.cdep()
        bad = []
        for u in upd:
            key_u = frozenset(cd.get(u.bb, ()))
            if not any(frozenset(cd.get(i.bb, ())) == key_u and fd.cfg.instr_dominates(u, i) or
                       (frozenset(cd.get(i.bb, ())) == key_u) for i in inserts):
                bad.append(u)
        # ... and the map lives as long as the batch: it is created before the loop over the changed vehicles, not once per vehicle
        reset = None
        loops = loops_of(fd)
        for l in sorted(maps):
            for d in fd.defs.get(l, ()):
                if d.kind == "call-dest" and d.instr is not None and (d.instr.callee or "").endswith("HashMap::new"):
                    for nc, entry in loops:
                        if d.instr.bb in fd.cfg.reachable_from(entry) and nc.bb in fd.cfg.reachable_from(d.instr.bb) \
                                and any(u.bb in fd.cfg.reachable_from(entry) for u in upd):
                            reset = d.instr
        if reset is not None and not bad:
            ctx.bad(o, "the map of already updated tours is created anew in every round of the loop (%s): a vehicle updated earlier in the "
                    "batch is forgotten when its neighbour is updated, which then computes its depot-to-depot distance from the stale tour"
                    % reset.line(), loc=reset.line())
            return
        ctx.decide(o, bool(upd) and bool(maps) and not bad, "%d staying-vehicle branches, each followed by an insert into the consulted map" % len(upd),
                   "after %s at %s the new tour is not recorded in the map consulted by later updates of the same batch: a neighbour "
                   "updated later computes its depot-to-depot distance from the stale tour" % (
                       bad[0].callee.split("::")[-1], bad[0].line()) if bad else "no cycle update / consulted map found",
                   loc=bad[0].line() if bad else None)


def fresh_ids(ctx, sites):
    for key in sorted(ctx.prog.bodies):
        if not key.startswith(SCHEDULE + "::") or "{closure" in key or getattr(ctx.prog.bodies[key], "test_unit", False):
            continue
        allocs = [c for c in ctx.prog.bodies[key].calls() if c.callee in (DUMMY_FROM, VEHICLE_FROM)]
        if not allocs:
            continue
        fd = ctx.fd(key)
        fn = key.split("::")[-1]
        # (a) the counter of the result is advanced
        ss = [s for s in sites if s.fn == key]
        o = ctx.ob("R5.%s.counter-advanced" % fn, "T2", key, "%s allocates a fresh id, so the vehicle counter of its result is advanced" % fn)
        if ss:
            c = ss[0].fields["vehicle_counter"]
            ctx.decide(o, c.kind != "same", "vehicle_counter is %s" % c, "%s takes an id from the counter but returns the counter unchanged: the "
                       "next allocation hands out the same id again" % fn, loc=allocs[0].line())
        else:
            ctx.undecided(o, "no construction site in %s" % fn)
        # (b) the id is the counter's value before the increment
        for n, a in enumerate(allocs):
            o = ctx.ob("R5.%s.id-before-increment%s" % (fn, "" if len(allocs) == 1 else "#%d" % n), "T12", key,
                       "%s: the fresh id is the counter value before it is advanced" % fn)
            o.loc = a.line()
            src = fd.slice_operand_pure(a, a.args[0])
            if field(SCHEDULE, "vehicle_counter") not in src["atoms"]:
                ctx.bad(o, "the id at %s is not derived from the schedule's vehicle counter" % a.line(), loc=a.line())
                continue
            incs = [d.instr for d in src["defs"] if d.instr is not None and d.instr.kind == "assign" and d.instr.rv_kind() == "binop"
                    and d.instr.rv["op"].startswith("Add") and any(op.const_val() == 1 for op in d.instr.ops)]
            dom = [i for i in incs if fd.cfg.instr_dominates(i, a)]
            ctx.decide(o, not dom, "no increment precedes the read", "the counter is incremented at %s before it is read for the id at %s: the id "
                       "collides with the one the result's counter hands out next" % (dom[0].line() if dom else "?", a.line()), loc=a.line())


def rules(ctx):
    sites = listings(ctx)
    cycles_follow_vehicles(ctx, sites)
    common.who_may_call(ctx, "R4.schedule-new-callers", S("new"), [SCHEDULE + "::"], "Schedule::new is called only inside impl Schedule", floor=12)
    fresh_ids(ctx, sites)
    from .C12 import gap_guard, gap_operands
    gap_guard(ctx)          # consecutive nodes of a tour stay connectable when a segment is taken out
    gap_operands(ctx)
    from .C12 import path_new_checks_every_hop
    path_new_checks_every_hop(ctx, "R2")
    # "chronological path whose consecutive nodes are connectable": the times and turnaround figures can_reach works with are the instance's
    from .C17 import loader_subset as _ls, getters as _getters
    _ls(ctx, ["Config-new-positional"])
    before = len(ctx.obligations)
    _getters(ctx)
    ctx.obligations[before:] = [o_ for o_ in ctx.obligations[before:] if o_.id.endswith(("getter.start_time", "getter.end_time", "getter.start_location", "getter.end_location"))]
    for o_ in ctx.obligations[before:]:
        o_.id = o_.id.replace("C10/R1.", "C10/R2.model.")
    from .C17 import timing_rule as _timing
    before = len(ctx.obligations)
    _timing(ctx)                                # ... and the turnaround tables themselves
    for o_ in ctx.obligations[before:]:
        o_.id = o_.id.replace("C10/R3.", "C10/R2.timing.")
    from . import formulas as _fm
    before = len(ctx.obligations)
    _fm.three_opt_details(ctx, "R3")      # every vehicle in exactly one cycle: a re-ordered cycle is a permutation of the old one
    ctx.obligations[before:] = [o_ for o_ in ctx.obligations[before:] if "new-cycle" in o_.id or "index" in o_.id]
    _fm.overflow_capacity_formula(ctx, "R4")   # "depot limits hold" includes the overflow depot: its capacity covers what can be sent there
    from .C15 import empty_cycle_bookkeeping
    empty_cycle_bookkeeping(ctx)     # every vehicle sits in exactly one cycle: the free-list never hands out an occupied cycle
    # the producer-set and guard rules behind the tour / limit / membership invariants
    for part in (tour_producers, type_guards, growth_guards, limit_combination, depot_limits, formations_in_step):
        before = len(ctx.obligations)
        part(ctx)
        for o in ctx.obligations[before:]:
            o.id = o.id.replace("C10/", "C10/%s." % {"tour_producers": "tours", "type_guards": "types", "growth_guards": "formations",
                                                       "limit_combination": "formations", "depot_limits": "depots",
                                                       "formations_in_step": "membership"}[part.__name__], 1)


def controls(ctx):
    def coupled(c):
        common.coupled_updates(c, "ctl", "controls::Value", [("items", "total", "items change but total is inherited")], floor=1)
    def lost(c):
        from .. import prov
        ss = prov.producer_sites(c.an, "controls::Value")
        common.lost_update_rule(c, "ctl", "controls::Value", ss)
    return run_controls([("coupled update (items rebuilt, total inherited)", coupled), ("lost update (working copy dropped)", lost)])
