"""Role classification of the four EdgeLabel construction sites of the min-cost-flow network
(shared by C01.R8, C02.R6, C07.R1, C14)."""
from ..rulelib import *

SFVT = "solver::min_cost_flow_solver::MinCostFlowSolver::solve_for_vehicle_type"
EDGELABEL = "solver::min_cost_flow_solver::EdgeLabel"
ADD_EDGE = "<rs_graph::linkedlistgraph::LinkedListGraph as rs_graph::builder::Builder>::add_edge"
COSTS = "model::config::CostsConfig"
DEPOT_CAP = "model::network::depot::Depot::capacity_for"


class Edge:
    def __init__(self, instr, fields):
        self.instr = instr
        self.fields = fields   # name -> (operand, pure-slice atoms)
        self.role = None
        self.add_edge = None


def edge_sites(ctx):
    """EdgeLabel aggregates in solve_for_vehicle_type (+ closures), each with per-field atoms and its add_edge call"""
    fd = ctx.fd(SFVT)
    if fd is None:
        return None, []
    out = []
    for ins in fd.body.instrs():
        if ins.kind == "assign" and ins.rv_kind() == "agg" and ins.rv.get("adt") == EDGELABEL:
            fs = {}
            for name, op in zip(ins.rv["fields"], ins.ops):
                fs[name] = (op, fd.slice_operand_pure(ins, op)["atoms"])
            e = Edge(ins, fs)
            out.append(e)
    # pair each EdgeLabel with the add_edge whose result is the key it is inserted under
    for e in out:
        for c in fd.body.calls():
            if c.callee and c.callee.endswith("HashMap::insert") and len(c.args) == 3:
                v = direct_def_instr(fd, c.args[2])
                if v is e.instr:
                    k = direct_def_instr(fd, c.args[1])
                    if k is not None and k.kind == "call" and k.callee and k.callee.endswith("::add_edge"):
                        e.add_edge = k
    for e in out:
        lb = e.fields.get("lower_bound", (None, set()))[1]
        ub = e.fields.get("upper_bound", (None, set()))[1]
        co = e.fields.get("cost", (None, set()))[1]
        if call(N("number_of_vehicles_required_to_serve")) in lb:
            e.role = "trip"
        elif call(DEPOT_CAP) in ub:
            e.role = "depot"
        elif call(N("dead_head_time_between")) in co:
            e.role = "connection"
        elif field(COSTS, "maintenance") in co:
            e.role = "maintenance"
    return fd, out


def role(ctx, oid, edges, role_name, text):
    o = ctx.ob(oid, "T1", SFVT, text)
    es = [e for e in edges if e.role == role_name]
    if len(es) != 1:
        ctx.bad(o, "expected exactly one %s edge construction in solve_for_vehicle_type, found %d (of %d EdgeLabel sites)"
                % (role_name, len(es), len(edges)))
        return o, None
    o.loc = es[0].instr.line()
    return o, es[0]


def need(ctx, oid, edges, role_name, fld, required, text):
    o, e = role(ctx, oid, edges, role_name, text)
    if e is None:
        return
    at = e.fields.get(fld, (None, set()))[1]
    miss = missing_atoms(at, required)
    ctx.decide(o, not miss, "%s of the %s edge uses all of: %s" % (fld, role_name, fmt_missing(required)),
               "%s of the %s edge does not derive from: %s" % (fld, role_name, fmt_missing(miss)),
               loc=e.instr.line())
