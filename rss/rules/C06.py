"""C06 - solving terminates with an answer for every valid instance.

Taken whole this is not statically decidable here (hundreds of unwrap/index/arithmetic sites
rest on data invariants; termination of the searches is a runtime quantity).  Three clauses
are in the shape of the code and are decided:
  R1 (T5)  unsigned arithmetic on the length of rotation cycles (which are empty or singletons
           by design) is guarded;
  R2 (T7)  the default substituted for an absent formation limit when sizing the overflow depot
           dominates the defaults used for the flow upper bounds (otherwise the circulation can
           be infeasible and network_simplex(..).unwrap() panics);
  R3 (T7/T1) the three searches run the default strictly-improving minimiser without limits.
"""
from .. import arith
from ..rulelib import *

NOTE = ("Static necessary conditions for termination without panic: guard recognition for usize "
        "subtraction/remainder on rotation-cycle lengths over all MIR bodies of solution and solver (T5), "
        "compiler-evaluated constant agreement for the 'unlimited formation' defaults (T7), constant/None "
        "operands and strict-improvement acceptance of the three local-search solvers (T7/T1). General "
        "panic-freedom and termination are NOT decided (see DESIGN.md C06).")

VT_MFC = "model::vehicle_types::VehicleType::maximal_formation_count"
NW_MFC = N("maximal_formation_count_for")
UNWRAP_OR = "core::option::Option::unwrap_or"
PLS_WITH = "rapid_solve::heuristics::parallel_local_search::ParallelLocalSearchSolver::with_options"
LS_WITH = "rapid_solve::heuristics::local_search::LocalSearchSolver::with_options"
PMIN_IMPROVE = ("<rapid_solve::heuristics::parallel_local_search::parallel_local_improver::parallel_minimizer::"
                "ParallelMinimizer as rapid_solve::heuristics::parallel_local_search::parallel_local_improver::"
                "ParallelLocalImprover>::improve")
MIN_IMPROVE = ("<rapid_solve::heuristics::local_search::local_improver::minimizer::Minimizer as "
               "rapid_solve::heuristics::local_search::local_improver::LocalImprover>::improve")


def guarded_arith(ctx, rid="R1", floor=10):
    ss = arith.sites(ctx.an)
    o = ctx.ob("%s.sites" % rid, "T5", "solution+solver",
               "arithmetic sites on rotation-cycle lengths are found (floor %d)" % floor)
    ctx.floor(o, len(ss), floor, "arithmetic sites")
    count = {}
    for key, ins, kind, c, g in ss:
        ctx.functions.add(key)
        base = "%s.%s.%s%s" % (rid, fn_of_closure(key).split("::")[-1] + ("{c}" if "{closure" in key else ""),
                               kind, "" if c is None else str(c))
        n = count.get(base, 0)
        count[base] = n + 1
        oid = base if n == 0 else "%s#%d" % (base, n)
        what = {"sub": "length - %s cannot underflow" % c, "rem": "remainder by a length that may be 0",
                "div": "division by a length that may be 0"}[kind]
        o = ctx.ob(oid, "T5", key, "%s: %s" % (key.split("::")[-1] if "{closure" not in key else fn_of_closure(key).split("::")[-1] + " (closure)", what))
        o.loc = ins.line()
        if g:
            ctx.ok(o, g)
        else:
            ctx.bad(o, "unguarded usize %s on the length of a rotation cycle at %s: cycles of length 0/1 exist by "
                       "design (one-vehicle cycles, emptied cycles), so this underflows (panic with overflow checks, "
                       "a practically endless range without)" % (
                        {"sub": "subtraction `len - %s`" % c, "rem": "remainder", "div": "division"}[kind], ins.line()),
                    loc=ins.line())
    return ss


def default_consts(ctx):
    """(fn key, instr, const) of every unwrap_or(<const>) applied to a formation limit"""
    out = []
    for key, body in ctx.prog.bodies.items():
        if body.crate not in ("model", "solution", "solver") or getattr(body, "test_unit", False):
            continue
        fd = None
        for ins in body.calls():
            if ins.callee != UNWRAP_OR:
                continue
            fd = fd or ctx.an.fd(key)
            src = direct_call_source(fd, ins.args[0])
            if src in (VT_MFC, NW_MFC):
                c = const_of_operand(fd, ins.args[1])
                v = int(c["val"]) if c is not None and "val" in c else None
                out.append((key, ins, v))
    return out


def overflow_default(ctx, rid="R2"):
    ds = default_consts(ctx)
    cap = [(k, i, v) for k, i, v in ds if fn_of_closure(k) == N("new")]
    dem = [(k, i, v) for k, i, v in ds if k.startswith("solver::min_cost_flow_solver::")]
    o = ctx.ob("%s.default-sites" % rid, "T7", N("new"),
               "the default for an absent formation limit is found at the overflow-capacity site and at the flow-bound sites")
    ok = len(cap) >= 1 and len(dem) >= 2 and all(v is not None for _, _, v in cap + dem)
    ctx.decide(o, ok, "capacity side: %s; flow side: %s" % ([v for _, _, v in cap], [v for _, _, v in dem]),
               "expected >=1 constant default in Network::new and >=2 in the min-cost-flow solver, found %s / %s"
               % ([(k, v) for k, _, v in cap], [(k, v) for k, _, v in dem]))
    o = ctx.ob("%s.overflow-default-dominates" % rid, "T7", N("new"),
               "overflow depot is sized with a default >= the default used for flow upper bounds")
    if not ok:
        ctx.bad(o, "cannot be decided: default sites not found")
        return
    cmin = min(v for _, _, v in cap)
    dmax = max(v for _, _, v in dem)
    site = [i for _, i, v in cap if v == cmin][0]
    ctx.decide(o, cmin >= dmax, "capacity default %d >= flow default %d" % (cmin, dmax),
               "an absent formation limit counts as %d vehicles per trip when sizing the overflow depot (%s) but as %d "
               "in the flow bounds (%s): a trip needing several coupled vehicles of an unlimited type can exceed the "
               "overflow capacity, the circulation is infeasible and network_simplex(..).unwrap() panics"
               % (cmin, site.line(), dmax, ", ".join(i.line() for _, i, _ in dem)), loc=site.line(),
               sample={"capacity": cmin, "flow": dmax})


def overflow_covers_maintenance(ctx, rid="R2"):
    """the overflow depot must be able to host every vehicle the circulation can be forced to create: the lower bounds
    of the trip edges (covered by trips x formation default) AND of the maintenance edges (one unit per allotted track)"""
    o, fd = ctx.require_fn("%s.overflow-capacity-covers-maintenance-tracks" % rid, "T1", N("new"),
                           "the overflow depot's capacity accounts for the maintenance tracks (each allotted track is a forced unit of flow)")
    if fd is None:
        return
    dn = calls_to(fd, "model::network::depot::Depot::new")
    if len(dn) != 1:
        ctx.undecided(o, "expected one Depot::new call in Network::new, found %d" % len(dn))
        return
    cap = fd.slice_operand_pure(dn[0], dn[0].args[3])["atoms"]
    has_trips = "param:2" in cap
    has_tracks = call("model::network::nodes::MaintenanceSlot::track_count") in cap or field("model::network::nodes::MaintenanceSlot", "track_count") in cap
    ctx.decide(o, has_trips and has_tracks, "capacity derives from the service trips and from the maintenance slots",
               "the overflow capacity is computed from the service trips only: every track of a maintenance slot allotted to a type is a "
               "lower bound of 1 on a flow edge; with scarce real depots and few trips the forced maintenance vehicles exceed the overflow "
               "capacity, the circulation is infeasible and network_simplex(..).unwrap() panics", loc=dn[0].line())


def unlimited_search(ctx, rid, builder, with_key, what):
    o, fd = ctx.require_fn("%s.%s.no-limits" % (rid, builder.split("::")[-1]), "T7", builder,
                           "%s: default minimiser, no time limit, no iteration limit" % what)
    if fd is None:
        return
    sites = calls_to(fd, with_key)
    if len(sites) != 1:
        ctx.bad(o, "expected exactly one call of with_options, found %d" % len(sites))
        return
    ins = sites[0]
    ctx.call_sites += 1
    bad = []
    for idx, name in ((2, "local_improver"), (4, "time_limit"), (5, "iteration_limit")):
        if not is_none_operand(fd, ins.args[idx]):
            bad.append(name)
    rs = fd.ret_slice()
    flows = slice_has_call_def(rs, with_key) is not None
    ctx.decide(o, not bad and flows, "operands 2,4,5 are the constant None and the solver is returned",
               ("operands not the constant None: %s" % ", ".join(bad)) if bad else "the configured solver is not what is returned",
               loc=ins.line())


def strict_improver(ctx, rid, key):
    """the improver returns Some(best) only when best < current (strict)"""
    o, fd = ctx.require_fn("%s.%s.strict" % (rid, "parallel-minimizer" if "Parallel" in key else "minimizer"),
                           "T1", key, "improver accepts a neighbour only if its objective value is strictly smaller")
    if fd is None:
        return
    lts = [i for i in fd.body.calls() if i.decl == "core::cmp::PartialOrd::lt"]
    if len(lts) != 1:
        ctx.bad(o, "expected one `<` comparison on objective values, found %d" % len(lts))
        return
    lt = lts[0]
    a0 = fd.slice_operand_pure(lt, lt.args[0])
    a1 = fd.slice_operand_pure(lt, lt.args[1])
    minby = lambda sl: any(a.startswith("call:") and a.endswith("::min_by") for a in sl["atoms"])
    order_ok = minby(a0) and not minby(a1) and "param:2" in a1["atoms"]
    # Some(..) is built only on the true edge
    sw = None
    for b, (ins, uses) in fd.switches.items():
        if lt.dest is not None and lt.dest.local in fd.slice(seed_locals=uses)["locals"]:
            if fd.cfg.instr_dominates(lt, ins):
                sw = ins
                break
    edge_ok = False
    if sw is not None and sw.targets and sw.targets[0][0] == 0:
        false_bb = sw.targets[0][1]
        true_bb = sw.otherwise
        rt = fd.cfg.reachable_from(true_bb)
        rf = fd.cfg.reachable_from(false_bb)
        somes = [i for i in fd.body.instrs() if i.kind == "assign" and i.rv_kind() == "agg"
                 and i.rv.get("adt") == "core::option::Option" and i.rv.get("v") == "Some"
                 and i.place.local == 0]
        edge_ok = bool(somes) and all(i.bb in rt and i.bb not in rf for i in somes)
    ctx.decide(o, order_ok and edge_ok, "`best < current` and Some(best) only on the true edge",
               "acceptance is not `best_neighbour < current` guarding the returned Some(..) (order_ok=%s, edge_ok=%s)"
               % (order_ok, edge_ok), loc=lt.line())


def rules(ctx):
    guarded_arith(ctx)
    overflow_default(ctx)
    from . import formulas
    formulas.overflow_capacity_formula(ctx, "R2")
    overflow_covers_maintenance(ctx)
    unlimited_search(ctx, "R3", "solver::local_search::build_local_search_solver", PLS_WITH, "schedule local search")
    unlimited_search(ctx, "R3", "solver::transition_local_search::build_transition_local_search_solver", PLS_WITH,
                     "transition local search")
    unlimited_search(ctx, "R3", "solver::transition_cycle_tsp::build_transition_cycle_tsp_solver", LS_WITH,
                     "cycle 3-opt search")
    strict_improver(ctx, "R3", PMIN_IMPROVE)
    strict_improver(ctx, "R3", MIN_IMPROVE)
    # R4: further panic / non-termination hazards whose absence is visible in the shape of the code
    from . import common, flownet
    from ..rulelib import SCHEDULE, TRANSITION
    fd_, edges = flownet.edge_sites(ctx)
    flownet.need(ctx, "R4.connection-arcs-carry-maintenance-flow", edges, "connection", "upper_bound", ["param:3"],
                 "an arc between two activities can carry as many vehicles as a maintenance slot hosts (its bound derives from the allotted "
                 "slot counts, not from the formation count alone), else the forced flow through a slot with more tracks than the formation "
                 "count is infeasible (network_simplex(..).unwrap() panics)")
    for fld in ("lower_bound", "upper_bound"):
        flownet.need(ctx, "R4.trip-%s-capped-by-trip-limit" % fld.replace("_", "-"), edges, "trip", fld, [call(NW_MFC)],
                     "lower and upper bound of a trip edge are capped by the same (per-trip) formation limit, else lower > upper and the "
                     "circulation is infeasible (network_simplex(..).unwrap() panics)")
    from .C12 import distance_sub_keeps_infinity
    distance_sub_keeps_infinity(ctx, "R1")      # tours at the overflow depot are edited without a panic
    from .C09 import cost_delta_form, source_sets
    cost_delta_form(ctx, common.sites_of(ctx, SCHEDULE))
    # costs are unsigned: an incremental helper that prices a node differently from the definition subtracts more than was added
    before = len(ctx.obligations)
    source_sets(ctx)
    ctx.obligations[before:] = [o_ for o_ in ctx.obligations[before:] if "costs" in o_.id]
    for o_ in ctx.obligations[before:]:
        o_.id = o_.id.replace("C06/R3.", "C06/R4.costs.")
    from .C15 import counter_plain_sum
    counter_plain_sum(ctx, common.sites_of(ctx, TRANSITION))
    from .C16 import every_vehicle_type
    for key, tag in (("server::solve_instance", "R4.server"), ("internal::run", "R4.internal")):
        every_vehicle_type(ctx, key, tag)
    from .C03 import location_names_are_total
    location_names_are_total(ctx, "R4")
    # a wrong 3-opt delta lets the cycle search 'improve' for ever; a forgotten tour makes the decoding pop() from an empty list;
    # a dummy id handed to improve_depots panics (rules shared with C15, C14, C11)
    before = len(ctx.obligations)
    formulas.flow_network_details(ctx, "R4")
    ctx.obligations[before:] = [o for o in ctx.obligations[before:] if "connection-bound" in o.id or "arc-direction" in o.id or "decoding-takes" in o.id]
    from . import order as _order
    _b = len(ctx.obligations)
    _order.pair_order(ctx, "R4")
    ctx.obligations[_b:] = [o_ for o_ in ctx.obligations[_b:] if (o_.where or "").startswith((TRANSITION + "::", TCYCLE + "::")) or "pair-sites" in o_.id]
    formulas.transition_counter_deltas(ctx, "R4")
    from .C17 import can_reach_kind_table
    can_reach_kind_table(ctx, "R4")      # depots stay connectable whatever the configuration says (else: infeasible flow, unwrap panics)
    from .C15 import three_opt_reconnection
    from .C11 import path_exchange_filters_vehicles
    from . import C14
    three_opt_reconnection(ctx, "R4")
    path_exchange_filters_vehicles(ctx, "R4")
    before = len(ctx.obligations)
    C14.decoding(ctx, fd_)
    ctx.obligations[before:] = [o for o in ctx.obligations[before:] if "decoding-accumulates" in o.id]
