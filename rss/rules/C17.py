"""C17 - the loaded network faithfully encodes the instance and its reachability."""
from ..rulelib import *
from . import ties
from .C06 import overflow_default

NOTE = ("Positional provenance of the loader (JSON field -> constructor argument -> struct field -> getter) over MIR pure "
        "data slices, shape and input relevance of Network::can_reach and the turnaround rule, sorted-map keys and "
        "tie-consistent range bounds of successors/predecessors, overflow depot construction. Decides which input field "
        "each model quantity is taken from on all paths; numeric conversions are not decided.")

J = "model::json_serialisation"
JF = lambda s, f: field("%s::%s" % (J, s), f)
NODES = "model::network::nodes"
ST = NODES + "::ServiceTrip"
MS = NODES + "::MaintenanceSlot"
DN = NODES + "::DepotNode"
CFG = "model::config::Config"
SH = "model::config::ShuntingConfig"
LOC = "model::locations::Locations"
DHT = "model::locations::DeadHeadTrip"
VT = "model::vehicle_types::VehicleType"
DEPOT = "model::network::depot::Depot"


def loader(ctx):
    call_arg_provenance(ctx, "R1", J + "::create_service_trips", ND("create_service_trip"), {
        0: ("id", [JF("DepartureSegment", "id")], []),
        1: ("vehicle_type", [JF("Route", "vehicle_type"), JF("Departures", "route")], []),
        2: ("origin", [JF("RouteSegment", "origin"), JF("DepartureSegment", "route_segment"), JF("Departures", "route")],
            [JF("RouteSegment", "destination")]),
        3: ("destination", [JF("RouteSegment", "destination"), JF("Departures", "route")], [JF("RouteSegment", "origin")]),
        4: ("departure", [JF("DepartureSegment", "departure")], [JF("RouteSegment", "duration")]),
        5: ("arrival", [JF("DepartureSegment", "departure"), JF("RouteSegment", "duration"), JF("Departures", "route")], []),
        6: ("distance", [JF("RouteSegment", "distance")], [JF("RouteSegment", "duration")]),
        7: ("passengers", [JF("DepartureSegment", "passengers")], [JF("DepartureSegment", "seated")]),
        8: ("seated", [JF("DepartureSegment", "seated")], [JF("DepartureSegment", "passengers")]),
        9: ("maximal_formation_count", [JF("RouteSegment", "maximal_formation_count")], []),
    })
    positional_ctor(ctx, "R1.create_service_trip-positional", ND("create_service_trip"), ST,
                    {"id": 1, "vehicle_type": 2, "origin": 3, "destination": 4, "departure": 5, "arrival": 6, "distance": 7,
                     "passengers": 8, "seated": 9, "maximal_formation_count": 10})
    # zero passengers counted as one: the substitution is decided on == 0
    o, fd = ctx.require_fn("R1.zero-passengers-become-one", "T1", J + "::create_service_trips",
                           "a departure segment without passengers is loaded with one passenger")
    if fd is not None:
        ok = False
        for ins in fd.body.instrs():
            if ins.kind == "assign" and ins.rv_kind() == "use" and ins.ops and ins.ops[0].const_val() == 1 \
                    and fd.body.local_name(ins.place.local) == "passengers" or (
                    ins.kind == "assign" and ins.rv_kind() == "use" and ins.ops and ins.ops[0].const_val() == 1
                    and "u32" in fd.body.local_ty(ins.place.local)):
                from .C03 import only_loop_controls
                extra = []
                for sw, cal, d in only_loop_controls(fd, ins):
                    if d is not None and d.kind == "assign" and d.rv_kind() == "binop" and d.rv["op"] == "Eq" \
                            and any(op.const_val() == 0 for op in d.ops):
                        ok = True
                    elif d is not None and d.kind == "call" and (d.callee or "").split("::")[-1] in ("branch", "next", "is_some", "is_none"):
                        continue
                    else:
                        extra.append(sw)
                if ok and extra:
                    # the extra condition must not be a flag that only says whether a warning was printed
                    flags = [sw for sw in extra if sw.ops and sw.ops[0].place is not None and "bool" in fd.body.local_ty(sw.ops[0].place.local)
                             and not any(a.startswith(("call:", "decl:", "param:", "field:", "capture:"))
                                         for a in fd.slice(seed_locals=fd.operand_uses(sw.ops[0]), control=False)["atoms"])]
                    if flags:
                        ctx.bad(o, "the substitution at %s also depends on a boolean flag set elsewhere in the loop (%s): only the first segment without "
                                "passengers is loaded with one passenger, later ones require no vehicle at all" % (ins.line(), flags[0].line()), loc=ins.line())
                        ok = None
                        break
        if ok is not None:
            ctx.decide(o, ok, "passengers = 1 under the condition passengers == 0", "no `passengers == 0 => 1` substitution found")
    call_arg_provenance(ctx, "R1", J + "::create_maintenance_slots", ND("create_maintenance"), {
        0: ("id", [JF("MaintenanceSlots", "id")], []),
        1: ("location", [JF("MaintenanceSlots", "location")], []),
        2: ("start", [JF("MaintenanceSlots", "start")], [JF("MaintenanceSlots", "end")]),
        3: ("end", [JF("MaintenanceSlots", "end")], [JF("MaintenanceSlots", "start")]),
        4: ("track_count", [JF("MaintenanceSlots", "track_count")], []),
    })
    positional_ctor(ctx, "R1.create_maintenance-positional", ND("create_maintenance"), MS,
                    {"id": 1, "location": 2, "start": 3, "end": 4, "track_count": 5})
    call_arg_provenance(ctx, "R1", J + "::create_vehicle_types", VT + "::new", {
        1: ("id", [JF("VehicleType", "id")], []),
        2: ("capacity", [JF("VehicleType", "capacity")], [JF("VehicleType", "seats")]),
        3: ("seats", [JF("VehicleType", "seats")], [JF("VehicleType", "capacity")]),
        4: ("maximal_formation_count", [JF("VehicleType", "maximal_formation_count")], []),
    })
    positional_ctor(ctx, "R1.VehicleType-new-positional", VT + "::new", VT,
                    {"idx": 1, "id": 2, "capacity": 3, "seats": 4, "maximal_formation_count": 5})
    call_arg_provenance(ctx, "R1", J + "::create_config", CFG + "::new", {
        0: ("forbid_dead_head_trip", [JF("Parameters", "forbid_dead_head_trips")], []),
        2: ("shunting_minimal", [JF("Shunting", "minimal_duration")], [JF("Shunting", "dead_head_trip_duration")]),
        3: ("shunting_dead_head_trip", [JF("Shunting", "dead_head_trip_duration")], [JF("Shunting", "minimal_duration")]),
        4: ("maintenance_maximal_distance", [JF("Maintenance", "maximal_distance")], []),
        5: ("costs_staff", [JF("Costs", "staff")], [JF("Costs", "service_trip"), JF("Costs", "idle")]),
        6: ("costs_service_trip", [JF("Costs", "service_trip")], [JF("Costs", "staff"), JF("Costs", "dead_head_trip")]),
        7: ("costs_maintenance", [JF("Costs", "maintenance")], [JF("Costs", "staff")]),
        8: ("costs_dead_head_trip", [JF("Costs", "dead_head_trip")], [JF("Costs", "idle")]),
        9: ("costs_idle", [JF("Costs", "idle")], [JF("Costs", "staff")]),
    })
    # Config::new puts its parameters where they belong (nested aggregates)
    o, fd = ctx.require_fn("R1.Config-new-positional", "T7", CFG + "::new", "Config::new stores each parameter in the field it is named for")
    if fd is not None:
        want = {("model::config::Config", "forbid_dead_head_trip"): 1, ("model::config::ShuntingConfig", "minimal"): 3,
                ("model::config::ShuntingConfig", "dead_head_trip"): 4, ("model::config::MaintenanceConfig", "maximal_distance"): 5,
                ("model::config::CostsConfig", "staff"): 6, ("model::config::CostsConfig", "service_trip"): 7,
                ("model::config::CostsConfig", "maintenance"): 8, ("model::config::CostsConfig", "dead_head_trip"): 9,
                ("model::config::CostsConfig", "idle"): 10}
        got = {}
        for ins in fd.body.instrs():
            if ins.kind == "assign" and ins.rv_kind() == "agg" and ins.rv.get("ak") == "adt":
                for name, op in zip(ins.rv["fields"], ins.ops):
                    at = fd.slice_operand_pure(ins, op)["atoms"]
                    ps = sorted(int(a[6:]) for a in at if a.startswith("param:"))
                    if len(ps) == 1:
                        got[(ins.rv["adt"], name)] = ps[0]
        bad = {k: (got.get(k), v) for k, v in want.items() if got.get(k) != v}
        ctx.decide(o, not bad, "9 fields <- their parameters", "mapping differs: %s" % bad)
    # depots
    call_arg_provenance(ctx, "R1.given-depots", J + "::create_depots", DEPOT + "::new", {
        1: ("id", [], []),
        2: ("location", [], []),
        3: ("total_capacity", [], []),
        4: ("allowed_types", [], []),
    }, which="all")
    o, fd = ctx.require_fn("R1.depots-from-input", "T1", J + "::create_depots",
                           "given depots carry their own id, location, capacity and per-type capacities; defaulted depots are one per location with the service-trip count as capacity")
    if fd is not None:
        at = set()
        for k in ctx.prog.family(J + "::create_depots"):
            f2 = ctx.fd(k)
            for ins in calls_to(f2, DEPOT + "::new"):
                for a in ins.args:
                    at |= f2.slice_operand_pure(ins, a)["atoms"]
        need = [JF("Depot", "id"), JF("Depot", "location"), JF("Depot", "capacity"), JF("Depot", "allowed_types"),
                JF("TypeCapacities", "vehicle_type"), JF("TypeCapacities", "capacity")]
        miss = [r for r in need if r not in at]
        # defaulted: capacity from parameter 5 (upper limit), one per location
        full = fd.ret_slice()["atoms"]
        ctx.decide(o, not miss and call(LOC + "::iter") in full and JF("JsonInput", "depots") in fd.decision_slice()["atoms"],
                   "all six depot input fields reach Depot::new; the default branch iterates the locations",
                   "Depot::new arguments do not derive from %s" % fmt_missing(miss))
    positional_ctor(ctx, "R1.Depot-new-positional", DEPOT + "::new", DEPOT,
                    {"idx": 1, "id": 2, "location": 3, "total_capacity": 4, "allowed_types": 5})
    # dead-head matrix
    o, fd = ctx.require_fn("R1.dead-head-matrix", "T1", J + "::create_locations",
                           "entry (i, j) of the duration/distance matrices becomes the dead-head trip from indices[i] to indices[j]")
    if fd is not None:
        dn = calls_to(fd, DHT + "::new")
        ins_calls = [c for c in fd.body.calls() if c.callee and c.callee.endswith("HashMap::insert") and len(c.args) == 3]
        ok = len(dn) == 1
        detail = "expected one DeadHeadTrip::new call"
        if ok:
            a_dist = fd.slice_operand_pure(dn[0], dn[0].args[0])["atoms"]
            a_dur = fd.slice_operand_pure(dn[0], dn[0].args[1])["atoms"]
            ok = JF("DeadHeadTrips", "distances") in a_dist and JF("DeadHeadTrips", "durations") not in a_dist \
                and JF("DeadHeadTrips", "durations") in a_dur and JF("DeadHeadTrips", "distances") not in a_dur
            detail = "DeadHeadTrip::new(distance, duration) is not fed from (distances, durations) in this order"
        if ok:
            # both levels of keys come from looking up an element of dead_head_trips.indices
            keyed = 0
            for c in ins_calls:
                v = fd.slice_operand_pure(c, c.args[2])
                if any(d.instr is dn[0] for d in v["defs"]) or any(
                        d.instr is not None and d.instr.kind == "call" and d.instr.callee and d.instr.callee.endswith("HashMap::new") for d in v["defs"]):
                    kat = fd.slice_operand_pure(c, c.args[1])["atoms"]
                    looked_up = any(a.startswith("call:") and a.endswith("as core::ops::index::Index>::index") and "HashMap" in a for a in kat) \
                        or any(a.endswith("HashMap::get") for a in kat)
                    if not looked_up:
                        ok = False
                        detail = "the matrix key at %s is not resolved through the location lookup (labels of deadHeadTrips.indices), " \
                                 "e.g. taken by position" % c.line()
                    if JF("DeadHeadTrips", "indices") in kat and JF("JsonInput", "locations") not in kat - {JF("JsonInput", "locations")}:
                        keyed += 1
                    elif any(d.instr is dn[0] for d in v["defs"]) or JF("DeadHeadTrips", "indices") not in kat:
                        if any(d.instr is dn[0] for d in v["defs"]):
                            ok = False
                            detail = "the destination key at %s is not taken from dead_head_trips.indices" % c.line()
            # loops: both enumerations range over indices
            for nm in ("i", "j"):
                pass
        if ok:
            # the column index j and the destination id come from the same enumeration over indices
            idxs = [c for c in fd.body.calls() if c.callee and c.callee.endswith("::index") and any("Vec<u64>" in t or "Vec<std::vec::Vec<u64>>" in t for t in c.targs)]
            for c in idxs:
                at = fd.slice_operand_pure(c, c.args[1])["atoms"]
                if JF("DeadHeadTrips", "indices") not in at:
                    ok = False
                    detail = "a matrix index at %s does not come from enumerating dead_head_trips.indices" % c.line()
        ctx.decide(o, ok, "distances/durations[i][j] keyed by (indices[i], indices[j])", detail)
    positional_ctor(ctx, "R1.DeadHeadTrip-new-positional", DHT + "::new", DHT, {"distance": 1, "travel_time": 2})
    positional_ctor(ctx, "R1.Locations-new-positional", LOC + "::new", LOC, {"stations": 1, "dead_head_trips": 2})


def loader_subset(ctx, keep):
    """run the loader rules and keep only obligations whose id contains one of `keep` (for sharing with other properties)"""
    before = len(ctx.obligations)
    loader(ctx)
    ctx.obligations[before:] = [o for o in ctx.obligations[before:] if any(k in o.id for k in keep)]


def getters(ctx):
    getter(ctx, "R1.getter.start_time", ND("start_time"), [field(ST, "departure"), field(MS, "start")], [field(ST, "arrival"), field(MS, "end")])
    getter(ctx, "R1.getter.end_time", ND("end_time"), [field(ST, "arrival"), field(MS, "end")], [field(ST, "departure"), field(MS, "start")])
    getter(ctx, "R1.getter.start_location", ND("start_location"), [field(ST, "origin"), field(MS, "location"), field(DN, "location")], [field(ST, "destination")])
    getter(ctx, "R1.getter.end_location", ND("end_location"), [field(ST, "destination"), field(MS, "location"), field(DN, "location")], [field(ST, "origin")])
    getter(ctx, "R1.getter.travel_distance", ND("travel_distance"), [field(ST, "distance")])
    getter(ctx, "R1.getter.passengers", ST + "::passengers", [field(ST, "passengers")], [field(ST, "seated")])
    getter(ctx, "R1.getter.seated", ST + "::seated", [field(ST, "seated")], [field(ST, "passengers")])
    getter(ctx, "R1.getter.segment-limit", ST + "::maximal_formation_count", [field(ST, "maximal_formation_count")])
    getter(ctx, "R1.getter.vehicle_type", ST + "::vehicle_type", [field(ST, "vehicle_type")])
    getter(ctx, "R1.getter.track_count", MS + "::track_count", [field(MS, "track_count")])
    getter(ctx, "R1.getter.capacity", VT + "::capacity", [field(VT, "capacity")], [field(VT, "seats")])
    getter(ctx, "R1.getter.seats", VT + "::seats", [field(VT, "seats")], [field(VT, "capacity")])
    getter(ctx, "R1.getter.type-limit", VT + "::maximal_formation_count", [field(VT, "maximal_formation_count")])
    getter(ctx, "R1.getter.travel_time", LOC + "::travel_time", [field(DHT, "travel_time"), call(LOC + "::get_dead_head_trip")], [field(DHT, "distance")])
    getter(ctx, "R1.getter.distance", LOC + "::distance", [field(DHT, "distance"), call(LOC + "::get_dead_head_trip")], [field(DHT, "travel_time")])
    # the matrix is read as [origin][destination]
    o, fd = ctx.require_fn("R1.getter.dead-head-direction", "T1", LOC + "::get_dead_head_trip",
                           "the dead-head trip from a to b is looked up as matrix[a][b]")
    if fd is not None:
        gets = [c for c in fd.body.calls() if c.callee and c.callee.endswith("HashMap::get")]
        ok = len(gets) == 2
        if ok:
            outer = [c for c in gets if field(LOC, "dead_head_trips") in fd.slice_operand_pure(c, c.args[0])["atoms"]
                     and not any(d.instr in gets for d in fd.slice_operand_pure(c, c.args[0])["defs"])]
            inner = [c for c in gets if c not in outer]
            ok = len(outer) == 1 and len(inner) == 1 and "param:2" in fd.slice_operand_pure(outer[0], outer[0].args[1])["atoms"] \
                and "param:3" not in fd.slice_operand_pure(outer[0], outer[0].args[1])["atoms"] \
                and "param:3" in fd.slice_operand_pure(inner[0], inner[0].args[1])["atoms"]
        ctx.decide(o, ok, "outer key = a, inner key = b", "lookup is not matrix[a][b]")


def timing_rule(ctx):
    cr = N("can_reach")
    can_reach_kind_table(ctx)
    must_depend(ctx, "R3.can_reach-inputs", "T1", cr, "ret",
                [field(CFG, "forbid_dead_head_trip"), call(N("minimal_duration_between_nodes_as_ref")), call(ND("end_time")), call(ND("start_time")),
                 call(ND("end_location")), call(ND("start_location")),
                 (call(ND("is_start_depot")), "discr:" + NODE), (call(ND("is_end_depot")), "discr:" + NODE), "param:2", "param:3"],
                "can_reach depends on the forbid flag, the turnaround rule, both times, both locations and the depot kinds")
    o, fd = ctx.require_fn("R3.can_reach-shape", "T12", cr, "can_reach decides arrival + turnaround <= start (equality admitted)")
    if fd is not None:
        cmps = [c for c in fd.body.calls() if c.callee in ("core::cmp::PartialOrd::le", "core::cmp::PartialOrd::ge",
                                                            "core::cmp::PartialOrd::lt", "core::cmp::PartialOrd::gt")]
        ok = False
        detail = "expected exactly one ordering comparison, found %d" % len(cmps)
        if len(cmps) == 1:
            c = cmps[0]
            a0 = fd.slice_operand_pure(c, c.args[0])
            a1 = fd.slice_operand_pure(c, c.args[1])
            lhs_ok = call(ND("end_time")) in a0["atoms"] and call(N("minimal_duration_between_nodes_as_ref")) in a0["atoms"] and call(ND("start_time")) not in a0["atoms"]
            rhs_ok = call(ND("start_time")) in a1["atoms"] and call(ND("end_time")) not in a1["atoms"]
            op = c.callee.split("::")[-1]
            if lhs_ok and rhs_ok:
                ok = op == "le"
                detail = "comparison is `%s` (arrival+turnaround %s start)" % (op, {"le": "<=", "lt": "<", "ge": ">=", "gt": ">"}[op])
            else:
                l2 = call(ND("start_time")) in a0["atoms"] and call(ND("end_time")) not in a0["atoms"]
                r2 = call(ND("end_time")) in a1["atoms"] and call(N("minimal_duration_between_nodes_as_ref")) in a1["atoms"]
                ok = l2 and r2 and op == "ge"
                detail = "comparison operands/form not recognised (op %s)" % op
            # whose end time, whose start time
            if ok:
                e = [x for x in fd.body.calls() if x.callee == ND("end_time")]
                s = [x for x in fd.body.calls() if x.callee == ND("start_time")]
                ok = all("param:2" in fd.slice_operand_pure(x, x.args[0])["atoms"] and "param:3" not in fd.slice_operand_pure(x, x.args[0])["atoms"] for x in e) \
                    and all("param:3" in fd.slice_operand_pure(x, x.args[0])["atoms"] and "param:2" not in fd.slice_operand_pure(x, x.args[0])["atoms"] for x in s)
                detail = "end time of node1 + turnaround <= start time of node2" if ok else "end_time/start_time are not taken from node1/node2 respectively"
        ctx.decide(o, ok, detail, detail)
    md = N("minimal_duration_between_nodes_as_ref")
    call_arg_provenance(ctx, "R3.turnaround", md, LOC + "::travel_time", {
        1: ("from", [call(ND("end_location")), "param:2"], [call(ND("start_location")), "param:3"]),
        2: ("to", [call(ND("start_location")), "param:3"], [call(ND("end_location")), "param:2"]),
    })
    must_depend(ctx, "R3.turnaround-cases", "T1", md, "ret",
                [call(N("shunting_duration_between_activities_if_no_dead_head_trip")), call(N("shunting_duration_between_activities_if_dead_head_trip")),
                 call(LOC + "::travel_time"), call(ND("end_location")), call(ND("start_location"))],
                "turnaround = minimal shunting at the same location, else dead-head travel time plus dead-head shunting")
    must_depend(ctx, "R3.turnaround-leaf-inputs", "T1", md, "ret",
                [field(SH, "minimal"), field(SH, "dead_head_trip"), call(LOC + "::travel_time"), call(ND("end_location")), call(ND("start_location"))],
                "the turnaround uses both shunting times, the dead-head travel time and both locations")
    h_same = N("shunting_duration_between_activities_if_no_dead_head_trip")
    h_dht = N("shunting_duration_between_activities_if_dead_head_trip")
    if h_same in ctx.prog.bodies and h_dht in ctx.prog.bodies:
        shunting_case_tables(ctx)
        getter(ctx, "R3.same-location-shunting", h_same,
               [field(SH, "minimal")], [field(SH, "dead_head_trip")], "without a dead-head trip only the minimal shunting time applies")
        getter(ctx, "R3.dead-head-shunting", h_dht,
               [field(SH, "dead_head_trip")], [field(SH, "minimal")], "with a dead-head trip only the dead-head shunting time applies, on each non-depot side")
    else:
        turnaround_branches(ctx, md)
    for fn, a, b in (("dead_head_time_between", "travel_time", None), ("dead_head_distance_between", "distance", None)):
        call_arg_provenance(ctx, "R3.%s" % fn, N(fn), LOC + "::" + a, {
            1: ("from", [call(ND("end_location")), "param:2"], [call(ND("start_location")), "param:3"]),
            2: ("to", [call(ND("start_location")), "param:3"], [call(ND("end_location")), "param:2"]),
        })


def shunting_case_tables(ctx):
    """exhaustive case tables over the kinds of the two nodes (abstract interpretation of the match)"""
    from .. import optabs
    node = ctx.prog.adts.get(NODE)
    if node is None:
        return
    names = [v["name"] for v in node["variants"]]
    nondepot = {i for i, n in enumerate(names) if n in ("Service", "Maintenance")}
    FM, FD = field(SH, "minimal"), field(SH, "dead_head_trip")
    vi_ = {n: i for i, n in enumerate(names)}
    # the node kinds may be tested with is_depot() & co instead of a match
    kind_preds = {ND("is_start_depot"): {vi_.get("StartDepot")}, ND("is_end_depot"): {vi_.get("EndDepot")},
                  ND("is_depot"): {vi_.get("StartDepot"), vi_.get("EndDepot")}, ND("is_service"): {vi_.get("Service")},
                  ND("is_maintenance"): {vi_.get("Maintenance")}}
    for key, want, text in (
            (N("shunting_duration_between_activities_if_no_dead_head_trip"), lambda a, b: (1 if a in nondepot and b in nondepot else 0, 0),
             "at the same location the minimal shunting time applies for every pair of non-depot activities (4 of 16 kind pairs), nothing otherwise"),
            (N("shunting_duration_between_activities_if_dead_head_trip"), lambda a, b: (0, (1 if a in nondepot else 0) + (1 if b in nondepot else 0)),
             "with a dead-head trip the dead-head shunting time applies once per non-depot side (16 kind pairs)")):
        o, fd = ctx.require_fn("R3.%s.case-table" % ("same-location" if "no_dead" in key else "dead-head"), "T1+abs", key, text)
        if fd is None:
            continue
        bad, und = [], []
        table = {}
        for a in range(len(names)):
            for b in range(len(names)):
                it = optabs.OptInterp(fd.body, {})
                it.forced = {2: a, 3: b}
                it.enum_preds = kind_preds
                it.field_labels = {FM: "minimal", FD: "dead-head"}
                it.run()
                recs = it.records
                got = {(r["reads"].get(FM, 0), r["reads"].get(FD, 0)) for r in recs}
                table[(a, b)] = (got, [set(r["ret_src"]) for r in recs])
                if not recs:
                    und.append((names[a], names[b]))
                elif got != {want(a, b)}:
                    bad.append("(%s, %s): reads (minimal, dead-head shunting) %s times, expected %s" % (names[a], names[b], sorted(got), want(a, b)))
        if bad and len({frozenset(g) for g, _ in table.values()}) == 1:
            # the configuration value is read once up front, whatever the kinds are: decide on where the RESULT takes its value from
            bad = []
            for (a, b), (got, srcs) in table.items():
                w = want(a, b)
                expect = set()
                if w[0]:
                    expect.add("minimal")
                if w[1]:
                    expect.add("dead-head")
                if any(s_ != expect for s_ in srcs):
                    bad.append("(%s, %s): the result takes its value from %s, expected %s" % (
                        names[a], names[b], sorted(set().union(*srcs)) or "nothing", sorted(expect) or "nothing"))
        if bad:
            ctx.bad(o, "; ".join(bad[:3]))
        elif und:
            ctx.undecided(o, "no returning path for %s" % und[:3])
        else:
            ctx.ok(o, "all 16 kind pairs as documented")


def can_reach_kind_table(ctx, rid="R3"):
    """the documented depot rules of can_reach, for all 16 pairs of node kinds and whatever the configuration says:
    nothing reaches a start depot, an end depot reaches nothing; otherwise a start depot reaches everything and everything
    reaches an end depot (the forbid-dead-head flag applies to activities only: the overflow depot has no location)"""
    from .. import optabs
    cr = N("can_reach")
    o, fd = ctx.require_fn("%s.can_reach.depot-rules" % rid, "T1+abs", cr,
                           "can_reach answers by the depot kinds alone whenever a depot is involved (before any location or time test)")
    if fd is None:
        return
    node = ctx.prog.adts.get(NODE)
    if node is None:
        ctx.undecided(o, "Node type not found")
        return
    names = [v["name"] for v in node["variants"]]
    vi = {n: i for i, n in enumerate(names)}
    if not {"StartDepot", "EndDepot"} <= set(vi):
        ctx.undecided(o, "Node variants not recognised")
        return
    # the two node references: locals of type &Node that derive from exactly one of the two parameters
    sides = {2: [], 3: []}
    for l in range(fd.body.argc + 1, len(fd.body.locals)):
        ty = fd.body.local_ty(l)
        if not (ty.startswith("&") and ty.rstrip().endswith("Node") and "Node" in ty):
            continue
        at = fd.slice(seed_locals=[l], control=False)["atoms"]
        p2, p3 = "param:2" in at, "param:3" in at
        if p2 != p3:
            sides[2 if p2 else 3].append(l)
    if not sides[2] or not sides[3]:
        ctx.undecided(o, "the references to the two nodes are not recognised")
        return
    preds = {ND("is_start_depot"): {vi["StartDepot"]}, ND("is_end_depot"): {vi["EndDepot"]},
             ND("is_depot"): {vi["StartDepot"], vi["EndDepot"]}}
    for nm, cal in (("Service", "is_service"), ("Maintenance", "is_maintenance")):
        if nm in vi:
            preds[ND(cal)] = {vi[nm]}
    bad, und = [], []
    for a in range(len(names)):
        for b in range(len(names)):
            if b == vi["StartDepot"] or a == vi["EndDepot"]:
                want = "F"
            elif a == vi["StartDepot"] or b == vi["EndDepot"]:
                want = "T"
            else:
                continue
            forced = {l: a for l in sides[2]}
            forced.update({l: b for l in sides[3]})
            recs = optabs.enum_cases(fd.body, forced, preds)
            got = {r["ret"] if isinstance(r["ret"], str) else "?" for r in recs}
            wrong = {"T": "F", "F": "T"}[want]
            if wrong not in got and (not recs or "?" in got):
                und.append((names[a], names[b], sorted(got)))
            elif got != {want}:
                bad.append("(%s -> %s): some path answers %s, documented is %s" % (names[a], names[b],
                           "true" if want == "F" else "false", "false" if want == "F" else "true"))
    if bad:
        ctx.bad(o, "; ".join(bad[:3]) + " - e.g. with forbidDeadHeadTrips a depot (the overflow depot has no location) can no longer be "
                "connected to an activity and the circulation becomes infeasible")
    elif und:
        ctx.undecided(o, "kind pairs not decided: %s" % und[:3])
    else:
        ctx.ok(o, "12 kind pairs with a depot involved: all paths answer as documented")


def turnaround_branches(ctx, md):
    """the two helpers were inlined: decide the same thing on the branches of the location comparison"""
    o, fd = ctx.require_fn("R3.shunting-per-branch", "T1", md,
                           "at the same location only the minimal shunting time is used, otherwise only the dead-head shunting time (plus travel time)")
    if fd is None:
        return
    sw = None
    for b, (ins, uses) in fd.switches.items():
        d = direct_def_instr(fd, ins.ops[0])
        if d is not None and d.kind == "call" and d.decl in ("core::cmp::PartialEq::eq", "core::cmp::PartialEq::ne"):
            at = fd.slice_operand_pure(d, d.args[0])["atoms"] | fd.slice_operand_pure(d, d.args[1])["atoms"]
            if call(ND("end_location")) in at and call(ND("start_location")) in at:
                sw = (ins, d.decl.endswith("::eq"))
    if sw is None or not sw[0].targets:
        ctx.undecided(o, "location comparison not recognised")
        return
    ins, is_eq = sw
    false_bb, true_bb = ins.targets[0][1], ins.otherwise
    same_bb, other_bb = (true_bb, false_bb) if is_eq else (false_bb, true_bb)
    rs, ro = fd.cfg.reachable_from(same_bb), fd.cfg.reachable_from(other_bb)
    only_same, only_other = rs - ro, ro - rs

    def reads(blocks, fld):
        for i2 in fd.body.instrs():
            if i2.bb in blocks:
                for op in i2.ops + i2.args:
                    if op.place is not None and field(SH, fld) in fd.place_atoms(op.place):
                        return True
        return False
    bad = []
    if reads(only_same, "dead_head_trip"):
        bad.append("the same-location branch reads the dead-head shunting time")
    if reads(only_other, "minimal"):
        bad.append("the dead-head branch reads the minimal shunting time")
    if not reads(only_same, "minimal") or not reads(only_other, "dead_head_trip"):
        ctx.undecided(o, "shunting reads not found on the two branches")
        return
    ctx.decide(o, not bad, "minimal only at the same location, dead-head shunting only otherwise", "; ".join(bad))


def sorted_maps(ctx):
    ties.range_bound_rule(ctx, "R4.predecessors-keep-ties", N("predecessors"), "pred")
    ties.range_bound_rule(ctx, "R4.successors-keep-ties", N("successors"), "succ")
    must_depend(ctx, "R2.successors-source", "T1", N("successors"), "ret",
                [field(NETWORK, "vehicle_type_nodes_sorted_by_start"), call(N("can_reach")), call(ND("end_time")), "param:2", "param:3"],
                "successors range over the by-start map of the type from the node's end time and filter with can_reach")
    must_depend(ctx, "R2.predecessors-source", "T1", N("predecessors"), "ret",
                [field(NETWORK, "vehicle_type_nodes_sorted_by_end"), call(N("can_reach")), call(ND("start_time")), "param:2", "param:3"],
                "predecessors range over the by-end map of the type up to the node's start time and filter with can_reach")
    # direction of the can_reach filter (whichever closure of the enumeration holds the test)
    for fn in ("successors", "predecessors"):
        o = ctx.ob("R2.%s-filter-direction" % fn, "T1", N(fn), "%s keeps n iff can_reach(%s)" % (fn, "node, n" if fn == "successors" else "n, node"))
        if N(fn) not in ctx.prog.bodies:
            ctx.anchor_gone(o, N(fn))
            continue
        found = []
        for k in ctx.prog.family(N(fn)):
            f2 = ctx.fd(k)
            for c in calls_to(f2, N("can_reach")):
                a1 = f2.slice_operand_pure(c, c.args[1])["atoms"]
                a2 = f2.slice_operand_pure(c, c.args[2])["atoms"]
                el1 = any(a.startswith("param:") and a != "param:1" for a in a1) if f2.body.is_closure else False
                el2 = any(a.startswith("param:") and a != "param:1" for a in a2) if f2.body.is_closure else False
                found.append((c, el1, el2))
        if len(found) != 1 or found[0][1] == found[0][2]:
            ctx.undecided(o, "the can_reach test of the enumeration was not recognised (%d call(s))" % len(found))
            continue
        c, el1, el2 = found[0]
        ok = (el2 and not el1) if fn == "successors" else (el1 and not el2)
        ctx.decide(o, ok, "argument order as documented", "can_reach is called with the arguments in the other order", loc=c.line())
    # keys of the two sorted maps
    o, fd = ctx.require_fn("R2.sorted-map-keys", "T1", N("new"), "the by-start map is keyed by start times, the by-end map by end times")
    if fd is not None:
        got = {}
        for k in ctx.prog.family(N("new")):
            f2 = ctx.fd(k)
            for ins in f2.body.instrs():
                if ins.kind == "assign" and ins.rv_kind() == "agg" and ins.rv.get("ak") == "tuple" and len(ins.ops) == 2:
                    t0 = f2.body.local_ty(ins.ops[0].place.local) if ins.ops[0].place is not None else ""
                    if "DateTime" in t0 and "NodeIdx" in (f2.body.local_ty(ins.ops[1].place.local) if ins.ops[1].place is not None else ""):
                        at = f2.slice_operand_pure(ins, ins.ops[0])["atoms"]
                        got.setdefault(k, set()).update(x for x in (call(ND("start_time")), call(ND("end_time"))) if x in at)
        agg = aggregates_of(ctx.prog, NETWORK)
        ok = False
        detail = "Network aggregate not found"
        for k, ins in agg:
            f2 = ctx.fd(k)
            names = ins.rv["fields"]
            m = dict(zip(names, ins.ops))
            def key_kind(op):
                sl = f2.slice_operand_pure(ins, op)
                cl = [a[8:] for a in sl["atoms"] if a.startswith("closure:")]
                kinds = set()
                for c in cl:
                    kinds |= got.get(c, set())
                    for cc in ctx.prog.family(c):
                        kinds |= got.get(cc, set())
                return kinds
            ks = key_kind(m["vehicle_type_nodes_sorted_by_start"])
            ke = key_kind(m["vehicle_type_nodes_sorted_by_end"])
            if not ks and not ke:
                # the key construction was moved into a helper that receives the time getter: look at what is handed over
                def handed(op):
                    at = f2.slice_operand_pure(ins, op)["atoms"]
                    return {x for x in ("start_time", "end_time") if ("fnref:" + ND(x)) in at}
                hs, he = handed(m["vehicle_type_nodes_sorted_by_start"]), handed(m["vehicle_type_nodes_sorted_by_end"])
                if hs == {"start_time"} and he == {"end_time"}:
                    ok, detail = True, "by_start built with Node::start_time, by_end with Node::end_time (passed to a helper)"
                elif hs and he and (hs == {"end_time"} or he == {"start_time"}):
                    ok, detail = False, "by_start built with %s, by_end with %s" % (sorted(hs), sorted(he))
                else:
                    ok, detail = None, "key construction not recognised (by_start: %s, by_end: %s)" % (sorted(hs), sorted(he))
            else:
                ok = ks == {call(ND("start_time"))} and ke == {call(ND("end_time"))}
                detail = "by_start keyed by %s, by_end keyed by %s" % (sorted(x.split("::")[-1] for x in ks), sorted(x.split("::")[-1] for x in ke))
        if ok is None:
            ctx.undecided(o, detail)
        else:
            ctx.decide(o, ok, detail, detail)


def overflow_depot(ctx):
    o, fd = ctx.require_fn("R5.overflow-depot", "T1", N("new"),
                           "the overflow depot is located Nowhere, admits every vehicle type without bound and has capacity = service trips x formation default")
    if fd is not None:
        dn = calls_to(fd, DEPOT + "::new")
        ok = len(dn) == 1
        detail = "expected one Depot::new call in Network::new"
        if ok:
            c = dn[0]
            loc = const_of_operand(fd, c.args[2]) or {}
            cap = fd.slice_operand_pure(c, c.args[3])["atoms"]
            al = fd.slice_operand_pure(c, c.args[4])["atoms"]
            loc_def = direct_def_instr(fd, c.args[2])
            nowhere = ("Nowhere" in (loc.get("s") or "")) or (loc_def is not None and loc_def.kind == "assign" and loc_def.rv_kind() == "agg" and loc_def.rv.get("v") == "Nowhere")
            ok = nowhere and "param:2" in cap and call("model::vehicle_types::VehicleType::maximal_formation_count") in cap \
                and call("model::vehicle_types::VehicleTypes::iter") in al
            detail = "location Nowhere: %s; capacity from service trips and formation limits: %s; allowed types from all vehicle types: %s" % (
                nowhere, "param:2" in cap and call("model::vehicle_types::VehicleType::maximal_formation_count") in cap,
                call("model::vehicle_types::VehicleTypes::iter") in al)
        ctx.decide(o, ok, detail, detail)
    overflow_default(ctx, "R5")
    from . import formulas
    formulas.overflow_capacity_formula(ctx, "R5")
    from .C06 import overflow_covers_maintenance
    overflow_covers_maintenance(ctx, "R5")


def rules(ctx):
    from . import formulas
    formulas.network_formulas(ctx, "R6")
    formulas.network_predicates(ctx, "R6")
    formulas.completeness_loops(ctx, "R1")
    from .C02 import capacity_capped_by_total
    capacity_capped_by_total(ctx)
    loader(ctx)
    getters(ctx)
    sorted_maps(ctx)
    timing_rule(ctx)
    overflow_depot(ctx)
