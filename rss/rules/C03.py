"""C03 - output is complete and its vehicle view and trip view agree."""
from ..rulelib import *
from .C16 import OUT

NOTE = ("Field provenance of every JSON struct the output is made of (pure data slices over MIR), completeness loops over "
        "the network's own node sets, unconditional reporting inside those loops, dead-head trips emitted exactly under "
        "the location-change test and scheduled by the gap rule, formations kept in step with tours wherever a tour "
        "changes. 'Exactly once' and equality of the two views on concrete schedules are NOT decided.")

JS = "solution::json_serialisation"
J = lambda s: "%s::%s" % (JS, s)
LOCS = "model::locations::Locations"
NEXT = "core::iter::traits::iterator::Iterator::next"
ST_ID = "model::network::nodes::ServiceTrip::id"
MS_ID = "model::network::nodes::MaintenanceSlot::id"
VT_ID = "model::vehicle_types::VehicleType::id"
UTF = S("update_train_formation")


def only_loop_controls(fd, ins):
    """controlling conditions of `ins` other than loop iteration (iterator next()) and pattern matches on the loop element"""
    other = []
    ret_blocks = {i.bb for i in fd.body.instrs() if i.kind == "return"}
    for sw, cal, d in controlling_sources(fd, ins):
        if d is not None and d.kind == "call" and (d.decl == NEXT or d.callee == NEXT or (d.callee or "").endswith("::next")):
            continue
        # a test whose other outcomes never come back (they end in a panic: `match node { Service(s) => s, _ => panic!() }` of an
        # accessor that was inlined) skips nothing
        alive = [t for t in fd.cfg.succ[sw.bb] if fd.cfg.reachable_from(t) & ret_blocks]
        if len(alive) <= 1:
            continue
        other.append((sw, cal, d))
    return other


def loop_iterator_narrowing(fd, ins):
    """element-dropping adaptors (filter, skip, take, ...) on the iterators of the loops that control `ins`"""
    out = []
    for sw, cal, d in controlling_sources(fd, ins):
        if d is None or d.kind != "call" or not (d.decl == NEXT or d.callee == NEXT or (d.callee or "").endswith("::next")):
            continue
        a = d.args[0]
        if a.place is None:
            continue
        for base in (fd.bases(a.place.local) or {a.place.local}):
            for df in fd.defs.get(base, ()):
                i2 = df.instr
                if df.kind == "assign" and i2 is not None and i2.rv_kind() == "use" and i2.ops:
                    i2 = direct_def_instr(fd, i2.ops[0])
                    if i2 is None or i2.kind != "call":
                        continue
                    df_kind = "call-dest"
                else:
                    df_kind = df.kind
                if df_kind == "call-dest" and i2 is not None and (i2.decl or "").endswith("IntoIterator::into_iter"):
                    out += narrowing_calls(fd, i2, 0)
                elif df_kind == "call-dest" and i2 is not None:
                    if any((i2.callee or "").endswith(n) or (i2.decl or "").endswith(n) for n in NARROWING):
                        out.append(i2)
                    out += narrowing_calls(fd, i2, 0) if i2.args else []
    return out


def field_tables(ctx):
    aggregate_fields(ctx, "R1.trip-view", J("departure_segments_to_json"), J("JsonDepartureSegmentWithFormation"), {
        "departure_segment": [call(ST_ID)],
        "origin": [call(ND("start_location")), call(LOCS + "::get_id")],
        "destination": [call(ND("end_location")), call(LOCS + "::get_id")],
        "departure": [call(ND("start_time"))],
        "arrival": [call(ND("end_time"))],
        "vehicle_type": [call(VT_ID)],
        "formation": [call(S("train_formation_of")), call(TRAINF + "::iter")],
    })
    aggregate_fields(ctx, "R1.trip-view", J("maintenance_slots_to_json"), J("JsonFleetMaintenanceSlotWithFormation"), {
        "maintenance_slot": [call(MS_ID)],
        "location": [call(ND("start_location")), call(LOCS + "::get_id")],
        "start": [call(ND("start_time"))],
        "end": [call(ND("end_time"))],
        "formation": [call(S("train_formation_of")), call(TRAINF + "::iter")],
    })
    aggregate_fields(ctx, "R1.vehicle-view", J("vehicle_to_json"), J("JsonFleetDepartureSegment"), {
        "departure_segment": [call(ST_ID)],
        "origin": [call(ND("start_location"))],
        "destination": [call(ND("end_location"))],
        "departure": [call(ND("start_time"))],
        "arrival": [call(ND("end_time"))],
    })
    aggregate_fields(ctx, "R1.vehicle-view", J("vehicle_to_json"), J("JsonFleetMaintenanceSlot"), {
        "maintenance_slot": [call(MS_ID)],
        "location": [call(ND("start_location"))],
        "start": [call(ND("start_time"))],
        "end": [call(ND("end_time"))],
    })
    aggregate_fields(ctx, "R1.vehicle-view", J("vehicle_to_json"), J("JsonFleetDeadHeadTrip"), {
        "origin": [call(ND("end_location"))],
        "destination": [call(ND("start_location"))],
        "departure": [call(J("schedule_dead_head_trip"))],
        "arrival": [call(J("schedule_dead_head_trip"))],
    })
    aggregate_fields(ctx, "R1.vehicle-view", J("vehicle_to_json"), J("JsonVehicle"), {
        "start_depot": [call(T("first_node")), call(N("get_depot_idx"))],
        "end_depot": [call(T("last_node")), call(N("get_depot_idx"))],
        "departure_segments": [call(T("all_nodes_iter"))],
        "maintenance_slots": [call(T("all_nodes_iter"))],
        "dead_head_trips": [call(T("all_nodes_iter"))],
    })
    aggregate_fields(ctx, "R1.depot-loads", J("depot_usage_to_json"), J("Load"), {
        "spawn_count": [call(S("number_of_vehicles_of_same_type_spawned_at")), "param:2"],
        "vehicle_type": [call(VT_ID)],
    })
    aggregate_fields(ctx, "R1.depot-loads", J("depots_usage_to_json"), J("DepotLoad"), {
        "depot": [call("model::network::depot::Depot::id"), call(N("depots_iter"))],
        "load": [call(J("depot_usage_to_json"))],
    })
    aggregate_fields(ctx, "R2.document", J("schedule_to_json"), J("ScheduleJson"), {
        "depot_loads": [call(J("depots_usage_to_json"))],
        "fleet": [call(J("fleet_to_json"))],
        "departure_segments": [call(J("departure_segments_to_json"))],
        "maintenance_slots": [call(J("maintenance_slots_to_json"))],
        "dead_head_trips": [call(J("fleet_to_json"))],
    })


def completeness(ctx):
    must_depend(ctx, "R2.all-departure-segments", "T1", J("departure_segments_to_json"), "ret",
                [call(N("service_nodes")), call("model::vehicle_types::VehicleTypes::iter")],
                "the trip view iterates the service nodes of every vehicle type")
    must_depend(ctx, "R2.all-maintenance-slots", "T1", J("maintenance_slots_to_json"), "ret", [call(N("maintenance_nodes"))],
                "the slot view iterates all maintenance nodes")
    must_depend(ctx, "R2.all-vehicles", "T1", J("fleet_to_json"), "ret", [call(S("vehicles_iter")), call(J("vehicle_to_json"))],
                "the vehicle view iterates all vehicles of the type")
    targets = [
        (J("departure_segments_to_json"), None, "departure segment"),
        (J("maintenance_slots_to_json"), None, "maintenance slot"),
        (J("fleet_to_json"), (J("JsonFleet"), "vehicle_cycles"), "rotation cycle"),
        (J("fleet_to_json"), (J("JsonFleet"), "vehicles"), "vehicle"),
    ]
    for fn, fld, what in targets:
        o, fd = ctx.require_fn("R2.%s.every-%s-reported" % (fn.split("::")[-1], what.replace(" ", "-")), "T1", fn,
                               "every %s of the iterated set is reported: pushed unconditionally in a loop, or collected, over a sequence that is not narrowed (no filter/skip/take)" % what)
        if fd is None:
            continue
        # the vector in question: the named field of the struct literal, or the returned vector
        vec = None
        if fld is None:
            vec = root_local(fd, 0)
            if vec == 0:
                ds = [d for d in fd.defs.get(0, ()) if d.kind != "param"]
                vec = 0
        else:
            for ins in fd.body.instrs():
                if ins.kind == "assign" and ins.rv_kind() == "agg" and ins.rv.get("adt") == fld[0]:
                    op = dict(zip(ins.rv["fields"], ins.ops)).get(fld[1])
                    if op is not None and op.place is not None:
                        vec = root_local(fd, op.place.local)
        if vec is None:
            ctx.undecided(o, "the vector holding the %ss was not found" % what)
            continue
        verdict = sequence_completeness(fd, vec)
        if verdict[0] == "ok":
            ctx.ok(o, verdict[1])
        elif verdict[0] == "bad":
            ctx.bad(o, verdict[1] % what if "%s" in verdict[1] else verdict[1], loc=verdict[2])
        else:
            ctx.undecided(o, verdict[1])


COLLECTS = ("::collect", "::from_iter", "::collect_vec")
REORDERING = ("::sorted", "::sorted_by", "::sorted_by_key", "::sorted_unstable", "::rev", "::sort", "::sort_by", "::sort_by_key",
              "::sort_unstable", "::reverse", "::dedup", "::unique")


def cycle_order_preserved(ctx, rid="R2"):
    """the vehicles of a reported cycle appear in the cycle's own order"""
    key = J("fleet_to_json")
    o = ctx.ob("%s.fleet_to_json.cycle-order-preserved" % rid, "T1", key,
               "the ids inside a reported cycle are the cycle's vehicles in rotation order (no sorting, reversing or dropping)")
    if key not in ctx.prog.bodies:
        ctx.anchor_gone(o, key)
        return
    hits = []
    found = False
    for k in ctx.prog.family(key):
        f2 = ctx.fd(k)
        for c in f2.body.calls():
            if any((c.callee or "").endswith(x) or (c.decl or "").endswith(x) for x in COLLECTS) and any("Vec<std::string::String>" in t or "Vec<String>" in t for t in c.targs):
                at = f2.slice_operand_pure(c, c.args[0])["atoms"]
                if call(TCYCLE + "::iter") in at or any(a.startswith("param:") for a in at):
                    found = True
                    cur = direct_def_instr(f2, c.args[0])
                    guard = 0
                    while cur is not None and cur.kind == "call" and guard < 12:
                        guard += 1
                        nm = cur.callee or ""
                        if any(nm.endswith(x) or (cur.decl or "").endswith(x) for x in REORDERING + NARROWING):
                            hits.append(cur)
                        cur = direct_def_instr(f2, cur.args[0]) if cur.args else None
    if not found:
        ctx.undecided(o, "the per-cycle id list was not recognised")
    else:
        ctx.decide(o, not hits, "ids are mapped and collected in iteration order",
                   "the ids of a cycle pass through %s at %s: the reported order is no longer the rotation order the end depots were aligned to"
                   % ((hits[0].callee or "").split("::")[-1], hits[0].line()) if hits else "", loc=hits[0].line() if hits else None)


def sequence_completeness(fd, vec):
    """how the vector `vec` is filled: unconditional pushes in loops over un-narrowed sequences, or a collect() over an
    un-narrowed chain"""
    pushes = [d.instr for d in fd.defs.get(vec, ()) if d.kind == "call-mut" and d.instr is not None and d.instr.callee == "alloc::vec::Vec::push"]
    if pushes:
        for p in pushes:
            oth = only_loop_controls(fd, p)
            if oth:
                return ("bad", "the push at %s is skipped under an extra condition at %s: some %%ss are never reported" % (p.line(), oth[0][0].line()), p.line())
            nar = loop_iterator_narrowing(fd, p)
            if nar:
                return ("bad", "the loop feeding the push iterates a narrowed sequence (%s at %s): some %%ss are never reported" % (
                    (nar[0].callee or "").split("::")[-1], nar[0].line()), nar[0].line())
        return ("ok", "%d push(es), controlled only by a loop over the un-narrowed sequence" % len(pushes))
    cols = [d.instr for d in fd.defs.get(vec, ()) if d.kind == "call-dest" and d.instr is not None and
            any((d.instr.callee or "").endswith(c) or (d.instr.decl or "").endswith(c) for c in COLLECTS)]
    if cols:
        for c in cols:
            nar = narrowing_calls(fd, c, 0)
            if nar:
                return ("bad", "the collected chain is narrowed by %s at %s: some %%ss are never reported" % (
                    (nar[0].callee or "").split("::")[-1], nar[0].line()), nar[0].line())
        return ("ok", "collected from an un-narrowed iterator chain")
    return ("undecided", "the vector is neither filled by push nor by collect")


def dead_heads(ctx):
    cycle_order_preserved(ctx)
    key = J("vehicle_to_json")
    o, fd = ctx.require_fn("R4.dead-head-iff-location-change", "T1", key,
                           "a dead-head trip is listed exactly when the end location of an activity differs from the start location of the next")
    if fd is not None:
        pushes = [c for c in fd.body.calls() if c.callee == "alloc::vec::Vec::push" and any("JsonFleetDeadHeadTrip" in t for t in c.targs)]
        ok = bool(pushes)
        detail = "no dead-head push found"
        for p in pushes:
            oth = only_loop_controls(fd, p)
            good = False
            for sw, cal, d in oth:
                if d is not None and d.kind == "call" and d.decl in ("core::cmp::PartialEq::ne", "core::cmp::PartialEq::eq"):
                    a = fd.slice_operand_pure(d, d.args[0])["atoms"] | fd.slice_operand_pure(d, d.args[1])["atoms"]
                    if call(ND("end_location")) in a and call(ND("start_location")) in a:
                        good = True
                        # polarity: the push lies on the edge on which the locations DIFFER
                        t_true = sw.otherwise
                        t_false = dict(sw.targets).get(0)
                        differ_edge = t_true if d.decl.endswith("::ne") else t_false
                        same_edge = t_false if d.decl.endswith("::ne") else t_true
                        if differ_edge is not None and same_edge is not None and fd.cfg.dominates(same_edge, p.bb) \
                                and not fd.cfg.dominates(differ_edge, p.bb):
                            ok = False
                            detail = "the dead-head trip at %s is listed when the two locations are EQUAL (and not when they differ)" % p.line()
                        continue
                ok = False
                detail = "the dead-head push at %s is controlled by %s at %s instead of the location comparison" % (
                    p.line(), (cal or (d.rv.get("op") if d is not None and d.kind == "assign" and d.rv else "a condition")), sw.line())
            if not good and ok:
                ok = False
                detail = "the dead-head push at %s is not controlled by end_location != start_location" % p.line()
        ctx.decide(o, ok, "%d push(es) controlled by the location comparison only" % len(pushes), detail)
    o, fd = ctx.require_fn("R4.dead-head-pinned-to-an-activity", "T12", J("schedule_dead_head_trip"),
                           "one end of a dead-head trip is exactly an activity boundary and the other is that boundary +/- the minimal duration")
    if fd is not None:
        tups = [i for i in fd.body.instrs() if i.kind == "assign" and i.place.local == 0 and i.rv_kind() == "agg" and i.rv.get("ak") == "tuple" and len(i.ops) == 2]
        ARITH = ("core::ops::arith::Add::add", "core::ops::arith::Sub::sub")
        bad = []
        for t in tups:
            counts = []
            for op in t.ops:
                sl = fd.slice_operand_pure(t, op)
                counts.append(len({d.instr.id for d in sl["defs"] if d.instr is not None and d.instr.kind == "call" and d.instr.decl in ARITH}))
            if sorted(counts) != [0, 1]:
                bad.append((t, counts))
        if not tups:
            ctx.undecided(o, "returned (departure, arrival) pairs not recognised")
        else:
            ctx.decide(o, not bad, "%d return(s): one time copied from an activity, the other one arithmetic step away" % len(tups),
                       "at %s departure/arrival are %s arithmetic steps away from an activity boundary: the trip no longer has exactly the minimal "
                       "duration anchored at the activity, so it can overlap the next activity" % (bad[0][0].line(), bad[0][1]) if bad else "",
                       loc=bad[0][0].line() if bad else None)
    # the two documented placements, as formulas: (end_time(n1), end_time(n1) + d) and, leaving a depot, (start_time(n2) - d, start_time(n2))
    from . import formulas
    from .. import shape as _sh
    o, fd = ctx.require_fn("R4.dead-head-times.formula", "T12", J("schedule_dead_head_trip"),
                           "dead-head trip = (end(n1), end(n1) + minimal duration), or when leaving a depot (start(n2) - minimal duration, start(n2))")
    if fd is not None:
        tups = [i for i in fd.body.instrs() if i.kind == "assign" and i.place.local == 0 and i.rv_kind() == "agg" and i.rv.get("ak") == "tuple" and len(i.ops) == 2]
        side = lambda s: ("side", s)
        md = ("call", "minimal_duration_between_nodes", [("any",), ("side", 1), ("side", 2)])
        end1 = ("call", "Node::end_time", [side(1)])
        start2 = ("call", "Node::start_time", [side(2)])
        forms = [(end1, ("bin", "Add", end1, md)), (("bin", "Sub", start2, md), start2)]
        bad, good = [], 0
        for t in tups:
            e0 = _sh.normalise(_sh.expr(fd, t.ops[0]))
            e1 = _sh.normalise(_sh.expr(fd, t.ops[1]))
            if any(_sh.match(a, e0, self_param=3) and _sh.match(b, e1, self_param=3) for a, b in forms):
                good += 1
            else:
                ing = _sh.calls_of(e0) | _sh.calls_of(e1)
                if any(x.endswith("minimal_duration_between_nodes") for x in ing):
                    bad.append((t, "(%s, %s)" % (_sh.show(e0)[:90], _sh.show(e1)[:90])))
        if bad:
            ctx.bad(o, "the pair returned at %s is %s" % (bad[0][0].line(), bad[0][1]), loc=bad[0][0].line())
        elif good:
            ctx.ok(o, "%d return(s) in a documented form" % good)
        else:
            ctx.undecided(o, "returned pairs not recognised")
    must_depend(ctx, "R4.dead-head-placement", "T1", J("schedule_dead_head_trip"), "ret",
                [call(N("minimal_duration_between_nodes")), call(ND("end_time")), call(ND("start_time")), call(ND("is_depot")), "param:1", "param:2"],
                "a dead-head trip is placed inside the gap: it leaves at the end of the first activity (or arrives at the start of the second when leaving a depot)")


def formations_in_step(ctx):
    """R3: wherever impl Schedule changes a tour's nodes, the affected nodes reach update_train_formation"""
    specs = [
        ("add_path_to_vehicle_tour", 2, "inserted path and displaced path"),
        ("remove_segment", 1, "removed path"),
        ("override_reassign", 2, "moved nodes (via update_tours) and displaced path"),
        ("fit_reassign", 1, "moved nodes (via update_tours)"),
        ("spawn_vehicle_for_path", 1, "the new tour's nodes"),
        ("replace_vehicle_by_dummy", 1, "the removed tour's nodes"),
    ]
    for fn, n, what in specs:
        o, fd = ctx.require_fn("R3.%s.formations-updated" % fn, "T10", S(fn), "%s: %s reach update_train_formation" % (fn, what))
        if fd is None:
            continue
        ut = [c for c in fd.body.calls() if c.callee in (UTF, S("update_tours"))]
        ctx.decide(o, len(ut) >= n, "%d update call(s)" % len(ut), "%s has %d formation update call(s), %d are needed (%s)" % (fn, len(ut), n, what))
    o, fd = ctx.require_fn("R3.update_tours-updates-formations", "T10", S("update_tours"), "update_tours forwards the moved nodes to update_train_formation")
    if fd is not None:
        ut = calls_to(fd, UTF)
        ok = len(ut) == 1 and "param:15" in fd.slice_operand_pure(ut[0], ut[0].args[5])["atoms"] \
            and "param:11" in fd.slice_operand_pure(ut[0], ut[0].args[3])["atoms"]
        ctx.decide(o, ok, "moved_nodes and provider are passed on", "update_tours does not pass moved_nodes/provider to update_train_formation")
    # displaced path in override_reassign: removal from formations is not conditional on a dummy tour being created
    o, fd = ctx.require_fn("R3.override_reassign.displaced-nodes-leave-formations", "T10", S("override_reassign"),
                           "the receiver is removed from the formations of every displaced node, whether or not a dummy tour is created for them")
    if fd is not None:
        ip = calls_to(fd, T("insert_path"))
        ut = calls_to(fd, UTF)
        ok = False
        detail = "no update_train_formation call is fed by the path displaced by insert_path"
        for u in ut:
            mv = fd.slice_operand_pure(u, u.args[5])
            if ip and any(d.instr is ip[0] for d in mv["defs"]):
                cs = controlling_sources(fd, u)
                dummy_ctl = [sw for sw, cal, d in cs if cal == T("new_dummy")]
                via_dummy = any(d.instr is not None and d.instr.kind == "call" and d.instr.callee == T("new_dummy") for d in mv["defs"])
                if dummy_ctl or via_dummy:
                    detail = "the formation update for displaced nodes at %s depends on Tour::new_dummy: displaced maintenance slots " \
                             "(no dummy tour is created for them) keep the receiver in their formation" % u.line()
                else:
                    ok = True
        ctx.decide(o, ok, "update_train_formation(displaced path) is independent of the dummy tour", detail)
    for fn in ("remove_segment", "replace_vehicle_by_dummy", "add_path_to_vehicle_tour"):
        o, fd = ctx.require_fn("R3.%s.released-nodes-independent-of-dummy" % fn, "T10", S(fn),
                               "%s: vehicles are taken out of the formations of removed nodes whether or not a dummy tour is created for them" % fn)
        if fd is None:
            continue
        ut = calls_to(fd, UTF)
        bad = []
        for u in ut:
            mv = fd.slice_operand_pure(u, u.args[5])
            via_dummy = any(d.instr is not None and d.instr.kind == "call" and d.instr.callee == T("new_dummy") for d in mv["defs"])
            ctl_dummy = [sw for sw, cal, d in controlling_sources(fd, u) if cal == T("new_dummy")]
            if via_dummy or ctl_dummy:
                bad.append(u)
        ctx.decide(o, bool(ut) and not bad, "%d formation update(s), none tied to Tour::new_dummy" % len(ut),
                   "the formation update at %s iterates / is guarded by the dummy tour: removed maintenance slots (never part of a dummy tour) keep "
                   "the vehicle in their formation and block a track" % bad[0].line() if bad else "no formation update found",
                   loc=bad[0].line() if bad else None)
    # the node sequence handed to update_train_formation is the whole path / tour: no adaptor drops elements on the way
    o = ctx.ob("R3.formation-updates-get-every-node", "T12", SCHEDULE, "every caller hands update_train_formation all nodes of the path or tour it moves "
               "(no filter / skip / take between the node sequence and the call)")
    seen, bad = 0, []
    for k in sorted(ctx.prog.bodies):
        if not k.startswith(SCHEDULE + "::") or getattr(ctx.prog.bodies[k], "test_unit", False):
            continue
        f = ctx.fd(k)
        if f is None:
            continue
        for u in calls_to(f, UTF):
            if len(u.args) < 6:
                continue
            seen += 1
            nar = narrowing_calls(f, u, 5)
            if nar:
                bad.append((u, nar[0]))
    if bad:
        u, n = bad[0]
        ctx.bad(o, "the nodes passed to update_train_formation at %s go through %s(): the vehicle is not entered into / taken out of the formation of "
                "the nodes that are dropped, so tours and formations disagree" % (u.line(), (n.callee or n.decl or "").split("::")[-1]), loc=u.line())
    elif seen >= 5:
        ctx.ok(o, "%d formation updates, none behind a dropping adaptor" % seen)
    else:
        ctx.undecided(o, "only %d formation update call(s) found" % seen)
    o, fd = ctx.require_fn("R3.update-covers-nodes", "T1", UTF, "update_train_formation processes every moved non-depot node")
    if fd is not None:
        # the depot test may sit in the loop, in a closure handed to an adaptor, or in a private helper
        asked = False
        for f in hosts(ctx, UTF):
            def _on_node(i):
                tk = f.body.local_tk(i.discr_place().local)
                while tk.get("k") == "ref":
                    tk = tk.get("t", {})
                return tk.get("k") == "adt" and tk.get("p") == "model::network::nodes::Node"
            asked = asked or any(c.callee in (ND("is_depot"), ND("is_start_depot"), ND("is_end_depot")) for c in f.body.calls()) \
                or any(i.kind == "assign" and i.rv_kind() == "discr" and _on_node(i) for i in f.body.instrs())
        ctx.decide(o, asked, "the depot test is part of the update",
                   "update_train_formation never asks whether a node is a depot (%s): whichever other test decides which nodes are skipped, "
                   "maintenance slots or service trips are left with a stale formation" % ND("is_depot"))
    o, fd = ctx.require_fn("R3.update-writes-formation-per-node", "T1", UTF, "each processed node's formation is replaced by the result of the vehicle replacement")
    if fd is not None:
        ok = False
        for f in hosts(ctx, UTF):      # the loop body may live in a private helper
            ins = [c for c in f.body.calls() if (c.callee or "").endswith("HashMap::insert") and len(c.args) == 3]
            ok = ok or any(slice_has_call_def(f.slice_operand_pure(c, c.args[2]), S("vehicle_replacement_in_train_formation")) for c in ins)
        ctx.decide(o, ok, "train_formations.insert(node, vehicle_replacement_in_train_formation(..))", "no such insert found")


def location_names_are_total(ctx, rid="R1"):
    """Locations::get_id is called for the (Nowhere) location of the overflow depot when its dead-head trips are written"""
    from .. import optabs
    key = LOCS + "::get_id"
    o, fd = ctx.require_fn("%s.get_id-answers-for-nowhere" % rid, "T1+abs", key,
                           "Locations::get_id answers for Location::Nowhere without asking for its (non-existent) index")
    if fd is None:
        return
    loc = ctx.prog.adts.get("model::base_types::location::Location")
    if loc is None:
        ctx.undecided(o, "Location type not found")
        return
    vi = [i for i, v in enumerate(loc["variants"]) if v["name"] == "Nowhere"]
    if not vi:
        ctx.undecided(o, "Location::Nowhere not found")
        return
    recs = optabs.enum_cases(fd.body, {2: vi[0]})
    idx_calls = [r for r in recs if any(c.endswith("Location::idx") for c in r["calls"])]
    it_paths = len(recs)
    ctx.decide(o, it_paths >= 1 and not idx_calls, "Nowhere is answered on %d path(s) without Location::idx" % it_paths,
               "for Location::Nowhere get_id %s: any schedule that uses the overflow depot cannot be written out" % (
                   "calls Location::idx (which panics for Nowhere)" if idx_calls else "has no returning path"))


def rules(ctx):
    location_names_are_total(ctx)
    field_tables(ctx)
    completeness(ctx)
    formations_in_step(ctx)
    # the formation edits themselves (shared with C13): what update_train_formation books is what the edit puts into the vector
    from .C13 import formation_edits
    formation_edits(ctx, "R3")
    from .C12 import path_new_checks_every_hop
    path_new_checks_every_hop(ctx, "R4")     # a dead-head trip is listed for every hop of a tour: the hops were validated when the path was built
    # "each [dead-head trip] lying inside the gap between the two activities it connects" presupposes that consecutive activities of
    # an itinerary are connectable; after an insertion that rests on the two position walks evicting every unreachable node (shared
    # with C12; round 8, C03h_1: an `if` for the `while` left the second unreachable node in the tour and its dead-head trip overlapped it)
    from .C12 import scans_are_loops
    before = len(ctx.obligations)
    scans_are_loops(ctx)
    for o in ctx.obligations[before:]:
        o.id = o.id.replace("C03/R1.", "C03/R4.positions.")
    dead_heads(ctx)
    from . import order
    order.pair_order(ctx, "R4", only={"solution::json_serialisation::schedule_dead_head_trip", N("minimal_duration_between_nodes")})
    order.depot_sides(ctx, "R1.depot-loads")
    from .C02 import usage_queries_consult_the_map
    usage_queries_consult_the_map(ctx, "R1.depot-loads")     # the overflow depot's load is reported like any other
    # "with the input's own origin, destination and times": the model the output is read from is the input (shared with C17)
    from .C17 import loader_subset, getters
    loader_subset(ctx, ["create_service_trip.", "create_service_trip-positional", "create_maintenance.", "create_maintenance-positional"])
    before = len(ctx.obligations)
    getters(ctx)
    ctx.obligations[before:] = [o for o in ctx.obligations[before:] if any(k in o.id for k in ("start_time", "end_time", "start_location", "end_location"))]
    o, fd = ctx.require_fn("R5.output-same-solution", "T4", OUT, "schedule and objective value in the answer come from the same evaluated solution")
    if fd is not None:
        a = calls_to(fd, JS + "::schedule_to_json")
        b = calls_to(fd, "rapid_solve::objective::Objective::objective_value_to_json")
        ok = len(a) == 1 and len(b) == 1 and "param:1" in arg_slice(fd, a[0], 0, control=False)["atoms"] \
            and "param:1" in arg_slice(fd, b[0], 1, control=False)["atoms"]
        ctx.decide(o, ok, "both read parameter 1", "schedule_to_json / objective_value_to_json do not both read the evaluated solution")
