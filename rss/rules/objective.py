"""Rules about the objective (shared by C04, C07, C08)."""
from ..rulelib import *

OBJ = "solver::objective"
IND = lambda n: "<%s::%s as rapid_solve::objective::indicator::Indicator>::evaluate" % (OBJ, n)
INDN = lambda n: "<%s::%s as rapid_solve::objective::indicator::Indicator>::name" % (OBJ, n)
SWI = "solver::local_search::ScheduleWithInfo"

INDICATORS = [
    # struct, JSON name, getter, extra required atoms
    ("UnservedPassengersIndicator", "unservedPassengers", S("unserved_passengers")),
    ("MaintenanceViolationIndicator", "maintenanceViolation", S("maintenance_violation")),
    ("VehicleCountIndicator", "vehicleCount", S("number_of_vehicles")),
    ("CostsIndicator", "costs", S("costs")),
]
GETTER_FIELD = {
    S("unserved_passengers"): "unserved_passengers",
    S("maintenance_violation"): "maintenance_violation",
    S("costs"): "costs",
}
ORDER = ["UnservedPassengersIndicator", "MaintenanceViolationIndicator", "VehicleCountIndicator", "CostsIndicator"]


def indicators(ctx, rid):
    for struct, name, getter in INDICATORS:
        o, fd = ctx.require_fn("%s.%s.reads-its-cache" % (rid, name), "T1", IND(struct),
                               "indicator `%s` evaluates %s of the schedule it is given" % (name, getter.split("::")[-1]))
        if fd is None:
            continue
        rs = fd.ret_slice()
        need = [call(getter), call(SWI + "::get_schedule"), "param:2"]
        miss = missing_atoms(rs["atoms"], need)
        others = [g for _, _, g in INDICATORS if g != getter and call(g) in rs["atoms"]]
        ok = not miss and not others
        detail = ""
        if miss:
            detail = "value does not derive from %s" % fmt_missing(miss)
        if others:
            detail += " value also/instead reads %s" % ", ".join(x.split("::")[-1] for x in others)
        if struct == "UnservedPassengersIndicator" and ok:
            # both tuple components (passengers, seated) must be summed
            reads = set()
            for d in rs["defs"]:
                if d.instr is not None and d.instr.kind == "assign":
                    for op in d.instr.ops:
                        if op.place is not None:
                            for p in op.place.proj:
                                if p["k"] == "field" and p.get("tuple"):
                                    reads.add(p["i"])
            if reads != {0, 1}:
                ok = False
                detail = "only component(s) %s of (unserved passengers, unserved seated) enter the value" % sorted(reads)
        if ok:
            # the cached figure enters the objective as it is: no division / multiplication / remainder on the way
            scal = [d.instr for d in fd.slice(seed_locals=[0], control=False)["defs"] if d.instr is not None and d.instr.kind == "assign"
                    and d.instr.rv_kind() == "binop" and d.instr.rv["op"].startswith(("Div", "Rem", "Mul", "Shr", "Shl"))]
            if scal:
                ok = False
                detail = "the value is rescaled (%s at %s) before it is compared: differences below the scale are invisible to the search, which " \
                         "then accepts candidates that are worse on this level" % (scal[0].rv["op"], scal[0].line())
        ctx.decide(o, ok, "reads %s only" % getter.split("::")[-1], detail.strip())
        # the name paired with the getter
        o, fdn = ctx.require_fn("%s.%s.name" % (rid, name), "T7", INDN(struct),
                                "the indicator reading %s reports under the name `%s`" % (getter.split("::")[-1], name))
        if fdn is not None:
            consts = set()
            for ins in fdn.body.instrs():
                for op in ins.ops + ins.args:
                    if op.const is not None and op.const.get("s"):
                        consts.add(op.const["s"].strip('"'))
            ctx.decide(o, any(name == c or ('"%s"' % name) in c or c.endswith(name) for c in consts),
                       "constant name `%s`" % name, "name constant `%s` not found (constants: %s)" % (name, sorted(consts)[:4]))
    # the getters return their cached field
    for getter, fld in GETTER_FIELD.items():
        must_depend(ctx, "%s.getter-%s" % (rid, fld), "T1", getter, "ret", [field(SCHEDULE, fld)],
                    "%s returns the cached field %s" % (getter.split("::")[-1], fld))
    must_depend(ctx, "%s.getter-number_of_vehicles" % rid, "T1", S("number_of_vehicles"), "ret", [field(SCHEDULE, "vehicles")],
                "number_of_vehicles counts the real vehicles")


def level_order(ctx, rid, module=OBJ, expected=None, text=None):
    expected = expected or ORDER
    key = module + "::build"
    o, fd = ctx.require_fn("%s.level-order" % rid, "T7", key,
                           text or "objective levels are, in order: unserved passengers, maintenance violation, vehicle count, costs")
    if fd is None:
        return
    arrs = []
    for ins in fd.body.instrs():
        if ins.kind == "assign" and ins.rv_kind() == "agg" and ins.rv.get("ak") == "array" and len(ins.ops) == len(expected):
            if all(op.place is not None and "LinearCombination" in fd.body.local_ty(op.place.local) for op in ins.ops):
                arrs.append(ins)
    onew = calls_to(fd, "rapid_solve::objective::Objective::new")
    if len(arrs) != 1 or len(onew) != 1:
        ctx.bad(o, "expected one %d-element level array and one Objective::new call, found %d / %d" % (len(expected), len(arrs), len(onew)))
        return
    order = []
    names = sorted({a["path"].split("::")[-1] for a in ctx.prog.adts.values() if a["path"].startswith(module + "::") and a["path"].endswith("Indicator")})
    for op in arrs[0].ops:
        at = fd.slice_operand_pure(arrs[0], op)["atoms"]
        hit = [s for s in names if "agg:%s::%s::%s" % (module, s, s) in at]
        order.append(hit[0] if len(hit) == 1 else "?(%s)" % ",".join(hit))
    rs = fd.ret_slice()
    flows = slice_has_call_def(rs, "rapid_solve::objective::Objective::new") is not None
    ctx.decide(o, order == list(expected) and flows, "levels: %s" % " > ".join(x.replace("Indicator", "") for x in order),
               "levels are %s, documented order is %s" % (order, list(expected)), loc=arrs[0].line(), sample={"order": order})
    # positive integer coefficients
    o = ctx.ob("%s.coefficients" % rid, "T7", key, "every level has coefficient Integer(1) (no level is negated or zeroed)")
    coefs = [ins for ins in fd.body.instrs() if ins.kind == "assign" and ins.rv_kind() == "agg"
             and ins.rv.get("adt", "").endswith("coefficient::Coefficient")]
    vals = [(c.rv.get("v"), c.ops[0].const_val() if c.ops else None) for c in coefs]
    ctx.decide(o, len(vals) == len(expected) and all(v == ("Integer", 1) for v in vals), "%d x Integer(1)" % len(vals),
               "coefficients are %s" % vals)


def indicator_reads(ctx, oid, module, struct, getter, text):
    key = "<%s::%s as rapid_solve::objective::indicator::Indicator>::evaluate" % (module, struct)
    must_depend(ctx, oid, "T1", key, "ret", [call(getter), "param:2"], text)
