"""T6: no interior mutability / no global state / no unsafe / no public in-place mutation
(shared by C11, C13, C18).  Zero-count rules; positive controls in /verif/fixtures/controls."""
import re

from ..rulelib import *

WORKSPACE = ("model", "solution", "solver", "server", "internal", "single_run")
INTERIOR = re.compile(r"\b(Cell|RefCell|UnsafeCell|Mutex|RwLock|Atomic[A-Z]\w*|Atomic|OnceCell|OnceLock|LazyLock|LazyCell|Condvar|Barrier|mpsc::\w+|SyncUnsafeCell)\b")
VALUE_TYPES = [SCHEDULE, TOUR, TRANSITION, TCYCLE, TRAINF, PATH, "solution::segment::Segment", "solution::vehicle::Vehicle"]


def no_interior_mutability(ctx, oid, crates=WORKSPACE, text=None):
    o = ctx.ob(oid, "T6", "workspace ADTs", text or "no field of any workspace type is interior-mutable (Cell, RefCell, Mutex, RwLock, Atomic*, Once*)")
    bad = []
    n = 0
    for path, a in ctx.prog.adts.items():
        if a.get("crate") not in crates:
            continue
        for v in a["variants"]:
            for f in v["fields"]:
                n += 1
                if not f["freeze"] or INTERIOR.search(f["ty"]):
                    bad.append("%s.%s: %s (%s)" % (path, f["name"], f["ty"], a["span"].split(":")[0] + ":" + a["span"].split(":")[1]))
    ctx.call_sites += n
    ctx.decide(o, not bad, "%d fields of %d types inspected (compiler's Freeze verdict + type walk)" % (
        n, len([1 for a in ctx.prog.adts.values() if a.get("crate") in crates])),
        "interior-mutable field(s): %s" % "; ".join(bad[:6]))
    return o


def no_global_state(ctx, oid, crates=WORKSPACE):
    o = ctx.ob(oid, "T6", "workspace statics", "no `static` item (mutable or interior-mutable global state) in the workspace crates")
    ss = [s for s in ctx.prog.statics if s.get("crate") in crates]
    ctx.decide(o, not ss, "0 statics", "static item(s): %s" % "; ".join("%s: %s%s at %s" % (
        s["path"], "mut " if s["mut"] else "", s["ty"], s["span"].rsplit(":", 1)[0]) for s in ss[:6]))
    return o


def no_unsafe(ctx, oid, crates=WORKSPACE):
    o = ctx.ob(oid, "T6", "workspace unsafe", "no `unsafe` block or `unsafe fn` in the workspace crates")
    ub = [u for u in ctx.prog.unsafe_blocks if u.get("crate") in crates]
    uf = [u for u in ctx.prog.unsafe_fns if u.get("crate") in crates]
    ctx.decide(o, not ub and not uf, "0 unsafe blocks, 0 unsafe fns",
               "unsafe code: %s" % "; ".join([u["span"].rsplit(":", 1)[0] for u in ub[:4]] + [u["path"] for u in uf[:4]]))
    return o


def no_public_mutators(ctx, oid, types=None):
    types = types or VALUE_TYPES
    o = ctx.ob(oid, "T6", "value types", "no reachable method takes `&mut self` on Schedule/Tour/Transition/TrainFormation/Path/...: "
               "every modification returns a new value")
    bad = []
    n = 0
    for k, s in ctx.prog.sigs.items():
        if s.get("impl_self") not in types or not s.get("has_self") or s.get("unit_test"):
            continue
        n += 1
        tk = s["inputs"][0] if s["inputs"] else {}
        if tk.get("k") == "ref" and tk.get("m") and (s.get("pub") or s.get("reachable")):
            bad.append("%s at %s" % (k, s["span"].rsplit(":", 1)[0]))
    ctx.call_sites += n
    ctx.decide(o, not bad, "%d methods inspected" % n, "public in-place mutators: %s" % "; ".join(bad[:6]))
    return o


def controls_specs():
    ctl = ("controls",)
    return [
        ("interior-mutability (Cell field / Arc<Mutex> field)", lambda c: no_interior_mutability(c, "ctl.im", crates=ctl)),
        ("global state (static AtomicUsize / static mut)", lambda c: no_global_state(c, "ctl.gs", crates=ctl)),
        ("unsafe block", lambda c: no_unsafe(c, "ctl.us", crates=ctl)),
        ("public &mut self mutator", lambda c: no_public_mutators(c, "ctl.pm", types=["controls::Value"])),
    ]
