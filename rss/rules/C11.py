"""C11 - every local-search candidate is a valid schedule with truthful objective, produced without
panic and leaving its base untouched.

Validity is C10, truthfulness of the caches is C09, panic-freedom in general is not decidable (C06).
Decided here: the base schedule cannot be modified by candidate generation (ownership/immutability),
errors of the modification API are propagated and never unwrapped inside the swaps, and candidates
are built only through the public modification API."""
from ..engine import run_controls
from ..rulelib import *
from . import common, purity

NOTE = ("Static immutability argument (signatures take &Schedule/&self; no public &mut self method on the value types; "
        "compiler's Freeze verdict and a type walk over every field of every workspace ADT; no statics; no unsafe), "
        "error discipline in the four Swap::apply bodies (every Result of a schedule modification is propagated), and "
        "who-may-construct inventories (candidates only through the modification API). Validity of candidates is C10, "
        "cache truthfulness is C09; general panic-freedom is NOT decided.")

SWAPS = "solver::local_search::neighborhood::swaps"
SWAP_TRAIT = SWAPS + "::Swap"
UNWRAPS = ("core::result::Result::unwrap", "core::result::Result::expect", "core::result::Result::unwrap_or",
           "core::result::Result::unwrap_or_default", "core::result::Result::unwrap_or_else", "core::result::Result::ok")


def swap_apply_keys(ctx):
    return sorted(k for k in ctx.prog.bodies if k.startswith("<" + SWAPS) and k.endswith(" as %s>::apply" % SWAP_TRAIT))


def returns_schedule_result(ctx, callee):
    s = ctx.prog.sigs.get(callee)
    if s is None:
        return False
    out = s.get("output_s", "")
    return out.startswith("std::result::Result<") and "Schedule" in out.split(",")[0] + out


def error_discipline(ctx, keys, rid="R2"):
    for k in keys:
        fd = ctx.fd(k)
        name = k.split("::")[-3].split(" ")[0] if " as " in k else k.split("::")[-1]
        o = ctx.ob("%s.%s.errors-propagated" % (rid, name), "T11", k,
                   "%s: no Result of a schedule modification is unwrapped or discarded" % name)
        if fd is None:
            o.status = "anchor-missing"
            continue
        bad = []
        n = 0
        for fam in ctx.prog.family(k):
            ffd = ctx.an.fd(fam)
            for c in ffd.body.calls():
                if c.callee in UNWRAPS and c.args:
                    src = direct_call_source(ffd, c.args[0])
                    if src and src.startswith(SCHEDULE + "::") and returns_schedule_result(ctx, src):
                        bad.append((c, src))
                if c.callee and c.callee.startswith(SCHEDULE + "::") and returns_schedule_result(ctx, c.callee):
                    n += 1
        ctx.call_sites += n
        ctx.decide(o, not bad, "%d fallible modification call(s), none unwrapped" % n,
                   "; ".join("%s applied to the Result of %s at %s" % (c.callee.split("::")[-1], s.split("::")[-1], c.line()) for c, s in bad),
                   loc=bad[0][0].line() if bad else None)


def path_exchange_filters_vehicles(ctx, rid="R2"):
    """shared with C06: improve_depots panics on a vehicle id that is not a real vehicle"""
    PE = "<%s::path_exchange::PathExchange as %s>::apply" % (SWAPS, SWAP_TRAIT)
    IDR = SWAPS + "::improve_depot_and_recompute_transitions"
    o, fdp = ctx.require_fn("%s.path-exchange-filters-vehicles" % rid, "T1", PE,
                            "PathExchange hands to improve_depots only vehicles that are real in the schedule it hands over (improve_depots panics otherwise)")
    if fdp is not None:
        cs = calls_to(fdp, IDR)
        ok = False
        if len(cs) == 1:
            sched_root = root_local(fdp, cs[0].args[0].place.local) if cs[0].args[0].place is not None else None
            vec_root = root_local(fdp, cs[0].args[1].place.local) if cs[0].args[1].place is not None else None
            for d in fdp.defs.get(vec_root, ()):
                i2 = d.instr
                if d.kind == "call-mut" and i2 is not None and (i2.callee or "").endswith("::retain"):
                    at = set()
                    for a in i2.args[1:]:
                        at |= fdp.slice_operand_pure(i2, a)["atoms"]
                    cap_locals = fdp.slice(seed_locals=set().union(*[fdp.operand_uses(a) for a in i2.args[1:]]), control=False)["locals"]
                    if call(S("is_vehicle")) in at and sched_root in cap_locals:
                        ok = True
                        # the predicate itself must be is_vehicle: a wider one (is_vehicle_or_dummy) lets dummy ids through
                        for a in i2.args[1:]:
                            for dd in fdp.slice_operand_pure(i2, a)["defs"]:
                                ck = dd.info.get("closure") if dd.info else None
                                if ck and ck in ctx.prog.bodies:
                                    direct = {c3.callee for c3 in ctx.prog.bodies[ck].calls()}
                                    if (S("is_vehicle") not in direct and any((x or "").startswith(SCHEDULE + "::") for x in direct)) \
                                            or direct & {S("is_vehicle_or_dummy"), S("is_dummy")}:
                                        ok = False
        ctx.decide(o, ok, "the list is retained by is_vehicle of the schedule that is handed over",
                   "the vehicle list is not filtered by is_vehicle of the resulting schedule: a provider that became a dummy tour is handed to "
                   "improve_depots, which panics on non-vehicles")


def rules(ctx):
    keys = swap_apply_keys(ctx)
    o = ctx.ob("R1.swap-impls", "T8", SWAP_TRAIT, "the four Swap::apply implementations are found")
    ctx.decide(o, len(keys) >= 4, ", ".join(k.split("::")[-3].split(" ")[0] for k in keys), "only %d Swap::apply impls found" % len(keys))
    o = ctx.ob("R1.apply-takes-shared-ref", "T6", SWAP_TRAIT, "every Swap::apply receives the base schedule as &Schedule")
    bad = []
    for k in keys:
        s = ctx.prog.sigs.get(k)
        tk = s["inputs"][1] if s and len(s["inputs"]) > 1 else {}
        if not (tk.get("k") == "ref" and not tk.get("m") and tk.get("t", {}).get("p") == SCHEDULE):
            bad.append(k)
    ctx.decide(o, not bad, "%d impls, all (&self, &Schedule)" % len(keys), "apply does not take &Schedule in: %s" % bad)
    purity.no_public_mutators(ctx, "R1.no-public-mutators")
    purity.no_interior_mutability(ctx, "R1.no-interior-mutability")
    purity.no_global_state(ctx, "R1.no-global-state")
    purity.no_unsafe(ctx, "R1.no-unsafe")
    error_discipline(ctx, keys + [SWAPS + "::improve_depot_and_recompute_transitions"])
    path_exchange_filters_vehicles(ctx)
    hitch_hiking_refuses_conflicts(ctx)
    free_track_filter(ctx)
    swap_stages_chain(ctx)
    from .C15 import inf_conversions
    inf_conversions(ctx, "R3")        # cached counters of candidates use one substitute for 'infinitely far'
    # R3: candidates only through the modification API
    common.who_may_call(ctx, "R3.schedule-new-callers", S("new"), [SCHEDULE + "::"],
                        "Schedule::new (trusted constructor) is called only inside impl Schedule", floor=12)
    # set_next_day_transitions replaces two fields of a copy of self (a clone with two stores, or struct-update syntax): its
    # frame is decided by C07.R4 / C13.R1, what it stores by C16.R3
    common.who_may_construct(ctx, "R3.schedule-producers", SCHEDULE, [S("new"), S("set_next_day_transitions")],
                             "a Schedule value is assembled only in Schedule::new (and, from a copy of self, in set_next_day_transitions)")
    common.who_may_call(ctx, "R3.tour-precomputed-callers", T("new_precomputed"), [TOUR + "::"],
                        "Tour::new_precomputed (trusted caches) is called only inside impl Tour", floor=5)
    common.who_may_construct(ctx, "R3.tour-producers", TOUR, [T("new_precomputed")], "a Tour value is assembled only in Tour::new_precomputed")
    common.who_may_construct(ctx, "R3.transition-producers", TRANSITION, [TRANSITION + "::*"], "Transition values are built only inside impl Transition")
    # R4: truthful cached objective / valid formations of candidates (rule groups shared with C09, C02)
    from .C09 import tour_cache_rules, cycle_update_rules
    from .C02 import growth_guards
    tour_cache_rules(ctx)
    cycle_update_rules(ctx)
    before = len(ctx.obligations)
    growth_guards(ctx)
    for ob in ctx.obligations[before:]:
        ob.id = ob.id.replace("C11/R", "C11/R4.formations.R")
    from .C02 import depot_limits
    before = len(ctx.obligations)
    depot_limits(ctx)      # a candidate is a valid schedule: depot capacity is tested on the usage the candidate will have
    for ob in ctx.obligations[before:]:
        ob.id = ob.id.replace("C11/R", "C11/R4.depots.R")
    from .C01 import type_guards
    before = len(ctx.obligations)
    type_guards(ctx)       # a candidate is a valid schedule: a vehicle only gets trips of its own type, also from a dummy tour
    for ob in ctx.obligations[before:]:
        ob.id = ob.id.replace("C11/R", "C11/R4.types.R")
    from .C06 import overflow_covers_maintenance
    overflow_covers_maintenance(ctx, "R2")     # spawning for maintenance never runs out of depots (it would panic)
    o = ctx.ob("R3.swaps-return-api-results", "T1", SWAP_TRAIT, "each swap's candidate comes out of the schedule modification API")
    bad = []
    for k in keys:
        fd = ctx.fd(k)
        at = fd.ret_slice()["atoms"]
        if not any(a.startswith("call:" + SCHEDULE + "::") for a in at) or "param:2" not in at:
            bad.append(k)
    ctx.decide(o, not bad, "all candidates derive from Schedule methods applied to the base schedule", "no Schedule API in the result of %s" % bad)


def hitch_hiking_refuses_conflicts(ctx, rid="R2"):
    """AddTripForHitchHiking only ADDS a trip: when add_path_to_vehicle_tour reports displaced nodes the swap must be refused, because nothing
    in the swap hands them back"""
    keys = [k for k in swap_apply_keys(ctx) if "AddTripForHitchHiking" in k]
    o = ctx.ob("%s.hitch-hiking-refuses-conflicts" % rid, "T10", SWAP_TRAIT,
               "AddTripForHitchHiking looks at the conflict path returned by add_path_to_vehicle_tour and answers Err when there is one")
    if not keys:
        ctx.undecided(o, "swap implementation not found")
        return
    fd = ctx.fd(keys[0])
    ap = calls_to(fd, S("add_path_to_vehicle_tour"))
    if not ap:
        ctx.undecided(o, "add_path_to_vehicle_tour is not called directly")
        return
    looked = False
    for ins in fd.body.instrs():
        if ins.kind == "assign" and ins.rv_kind() == "discr":
            pl = ins.discr_place()
            ty = fd.body.local_ty(pl.local) if not pl.proj else str(pl.proj[-1].get("ty") or "")
            if len(pl.proj) == 1 and pl.proj[0].get("tuple") and fd.body.local_ty(pl.local).startswith("("):
                # component i of a tuple-typed local: read the component type off the tuple type
                inner, parts, depth, cur = fd.body.local_ty(pl.local)[1:-1], [], 0, ""
                for ch in inner:
                    if ch in "<([":
                        depth += 1
                    elif ch in ">)]":
                        depth -= 1
                    if ch == "," and depth == 0:
                        parts.append(cur.strip())
                        cur = ""
                    else:
                        cur += ch
                parts.append(cur.strip())
                i_ = pl.proj[0].get("i")
                if i_ is not None and i_ < len(parts):
                    ty = parts[i_]
            if ty.startswith(("std::option::Option<solution::path::Path", "core::option::Option<solution::path::Path")) and any(d.instr is ap[0] for d in fd.slice(seed_locals=[pl.local], control=False)["defs"]):
                looked = True
    OPT = ("std::option::Option<solution::path::Path", "core::option::Option<solution::path::Path",
           "&std::option::Option<solution::path::Path", "&core::option::Option<solution::path::Path")
    for c in fd.body.calls():        # ... or handed to is_some() / is_none() / map_or(..) and the like
        for a in c.args[:1]:
            if a.place is not None and not a.place.proj and fd.body.local_ty(a.place.local).startswith(OPT) \
                    and any(d.instr is ap[0] for d in fd.slice(seed_locals=[a.place.local], control=False)["defs"]):
                looked = True
    ctx.decide(o, looked, "the returned conflict path is matched on",
               "the conflict path returned by add_path_to_vehicle_tour is never looked at: the activities the hitch-hiked trip displaces "
               "from the vehicle's tour vanish from the candidate (no dummy tour, no refusal)", loc=ap[0].line())


def swap_stages_chain(ctx, rid="R2"):
    """a swap that applies several modifications applies each one to the RESULT of the previous one: the schedule a later step works on
    derives from the schedule the earlier step returned"""
    API = {S("remove_segment"), S("add_path_to_vehicle_tour"), S("spawn_vehicle_for_path"), S("override_reassign"), S("fit_reassign"),
           S("spawn_vehicle_to_replace_dummy_tour"), S("replace_vehicle_by_dummy")}
    for k in swap_apply_keys(ctx):
        fd = ctx.fd(k)
        if fd is None:
            continue
        steps = [c for c in fd.body.calls() if c.callee in API]
        if len(steps) < 2:
            continue
        name = k.split(" as ")[0].split("::")[-1] if " as " in k else k.split("::")[-2]
        o = ctx.ob("%s.%s.steps-build-on-each-other" % (rid, name), "T4", k,
                   "%s: every modification is applied to the schedule returned by the modification before it" % name)
        bad = None
        for c2 in steps:
            earlier = [c1 for c1 in steps if c1 is not c2 and fd.cfg.instr_dominates(c1, c2)]
            if not earlier:
                continue
            last = [c1 for c1 in earlier if not any(c3 is not c1 and fd.cfg.instr_dominates(c1, c3) for c3 in earlier)]
            recv = fd.slice_operand_pure(c2, c2.args[0])
            if not any(d.instr is c1 for c1 in last for d in recv["defs"]):
                bad = (c2, last[0])
                break
        if bad:
            ctx.bad(o, "%s at %s is applied to a schedule that does not come from %s at %s: the effect of that step (and what it handed back) is "
                    "missing from the candidate" % ((bad[0].callee or "").split("::")[-1], bad[0].line(), (bad[1].callee or "").split("::")[-1],
                                                     bad[1].line()), loc=bad[0].line())
        else:
            ctx.ok(o, "%d steps, each on the previous result" % len(steps))


def free_track_filter(ctx, rid="R2"):
    """maintenance spawning is offered for slots with a FREE track: vehicle_count < track_count (strict); the sort key that follows divides
    by the track count, which the strict test also keeps away from zero"""
    key = "solver::local_search::neighborhood::RSSchedParallelNeighborhood::spawn_vehicle_for_maintenance_iterator"
    o, fd0 = ctx.require_fn("%s.free-track-filter-is-strict" % rid, "T12", key,
                            "slots are offered for maintenance spawning only while vehicle_count < track_count")
    if fd0 is None:
        return
    cnt, lim = call(TRAINF + "::vehicle_count"), call(N("track_count_of_maintenance_slot"))
    found = []
    for k in ctx.prog.family(key):
        f = ctx.fd(k)
        if f is None:
            continue
        for ins in f.body.instrs():
            if ins.kind != "assign" or ins.rv_kind() != "binop" or ins.rv["op"] not in ("Lt", "Le", "Gt", "Ge"):
                continue
            a = f.slice_operand_pure(ins, ins.ops[0])["atoms"]
            b = f.slice_operand_pure(ins, ins.ops[1])["atoms"]
            if cnt in a and lim in b and cnt not in b:
                found.append((ins, ins.rv["op"]))
            elif cnt in b and lim in a and cnt not in a:
                found.append((ins, {"Lt": "Gt", "Gt": "Lt", "Le": "Ge", "Ge": "Le"}[ins.rv["op"]]))
    # the list that is sorted by workload (vehicle_count * k / track_count) has been filtered before: a slot without tracks never
    # reaches the division
    o2 = ctx.ob("%s.workload-key-sees-filtered-slots" % rid, "T10", key,
                "the slots sorted by workload (a division by the track count) have passed the free-track filter")
    sorts = [c for c in fd0.body.calls() if (c.callee or "").split("::")[-1] in ("sort_by_key", "sort_by_cached_key", "sort_unstable_by_key")]
    divides = False
    for k in ctx.prog.family(key):
        b = ctx.prog.bodies[k]
        if any(i.kind == "assign" and i.rv_kind() == "binop" and i.rv["op"] in ("Div", "Rem") for i in b.instrs()) \
                and any(c.callee == N("track_count_of_maintenance_slot") for c in b.calls()):
            divides = True
    if not sorts or not divides:
        ctx.undecided(o2, "no sort by a key that divides by the track count")
    else:
        ok_all = True
        for sc in sorts:
            ch = [x.split("::")[-1] for x in direct_chain(fd0, sc.args[0])]
            if not any(x in ("filter", "filter_map", "retain") for x in ch):
                # retain(..) on the same vector before the sort is fine as well
                root = direct_chain(fd0, sc.args[0], want_root=True)[1]
                kept = [c for c in fd0.body.calls() if (c.callee or "").endswith("::retain") and fd0.cfg.instr_dominates(c, sc)
                        and direct_chain(fd0, c.args[0], want_root=True)[1] == root]
                if not kept:
                    ok_all = False
                    ctx.bad(o2, "the vector sorted at %s was not filtered before: the sort key divides by the track count of every maintenance "
                            "slot, also of one with 0 tracks (attempt to divide by zero while candidates are generated)" % sc.line(), loc=sc.line())
                    break
        if ok_all:
            ctx.ok(o2, "%d sort(s) over a filtered list" % len(sorts))
    if not found:
        ctx.undecided(o, "no comparison of the vehicle count with the track count found")
    elif any(op == "Le" for _, op in found):
        i = [i for i, op in found if op == "Le"][0]
        ctx.bad(o, "`vehicle_count <= track_count` at %s also offers full slots, and a slot with 0 tracks reaches the sort key's division by its "
                "track count: candidate generation panics" % i.line(), loc=i.line())
    elif all(op == "Lt" for _, op in found):
        ctx.ok(o, "%d strict comparison(s)" % len(found))
    else:
        ctx.undecided(o, "comparison forms %s" % [op for _, op in found])


def controls(ctx):
    def ed(c):
        fd = c.fd("controls::swallow")
        o = c.ob("ctl.ed", "T11", "controls::swallow", "unwrap of a listed fallible API")
        bad = [x for x in fd.body.calls() if x.callee in UNWRAPS and direct_call_source(fd, x.args[0]) == "controls::fallible"]
        c.decide(o, not bad, "", "unwrap at %s" % (bad[0].line() if bad else ""))
    return run_controls(purity.controls_specs() + [("error discipline (unwrap of a fallible API)", ed)])
