"""C01 - returned vehicle itineraries are time-, place- and type-feasible."""
from .. import optabs
from ..rulelib import *
from . import common, flownet
from .C17 import timing_rule

NOTE = ("Representation-invariant argument over a closed producer set, decided statically: Tour values are assembled only "
        "in Tour::new_precomputed, reached only from validated or position-checked producers; each producer's decision "
        "depends on the documented tests (depot kinds, can_reach, removability, insert positions); type compatibility "
        "guards every operation that gives a vehicle new nodes (incl. an abstract interpretation of the dummy-provider "
        "case); can_reach has the documented shape and inputs; flow arcs follow Network::predecessors. Value-level "
        "correctness inside the position searches is NOT decided (C12 adds the tie case).")

COMPAT = N("compatible_with_vehicle_type")
CRTC = S("check_receiver_type_compatibility")
ANY = "core::iter::traits::iterator::Iterator::any"


def compat_scan_calls(ctx, fd):
    """calls to Iterator::any whose closure asks compatible_with_vehicle_type"""
    out = []
    for c in fd.body.calls():
        if c.decl == ANY or (c.callee or "").endswith("::any"):
            at = set()
            for a in c.args:
                at |= fd.slice_operand_pure(c, a)["atoms"]
            if call(COMPAT) in at:
                out.append(c)
    return out


def type_guards(ctx):
    for fn in ("spawn_vehicle_for_path", "spawn_vehicle_to_replace_dummy_tour", "add_path_to_vehicle_tour"):
        must_depend(ctx, "R6.%s-checks-type" % fn, "T1", S(fn), "dec", [call(COMPAT)],
                    "%s is refused when a node of the path is not compatible with the vehicle type" % fn)
    for fn in ("fit_reassign", "override_reassign"):
        must_depend(ctx, "R6.%s-checks-type" % fn, "T1", S(fn), "dec", [call(CRTC), "param:3", "param:4"],
                    "%s is refused when the receiver's type does not fit the moved nodes" % fn)
    must_depend(ctx, "R6.receiver-check-sources", "T1", CRTC, "ret",
                [call(COMPAT), call(S("vehicle_type_of")), call(T("sub_path")), "param:2", "param:3", "param:4"],
                "the receiver check scans the moved nodes for compatibility with the receiver's type")
    must_depend(ctx, "R6.compatibility-definition", "T1", COMPAT, "ret", [call(N("vehicle_type_for")), call(ND("is_service")), "param:2", "param:3"],
                "a node is compatible iff it is not a service trip or its route's vehicle type equals the vehicle's type")
    getter(ctx, "R6.vehicle_type_for-definition", N("vehicle_type_for"), [call("model::network::nodes::ServiceTrip::vehicle_type"), "param:2"])
    # dummy provider: the scan must still run
    o, fd = ctx.require_fn("R6.receiver-check-covers-dummy-provider", "T1+abs", CRTC,
                           "when the provider has no vehicle type (a dummy tour) the per-node compatibility scan is still performed")
    if fd is not None:
        vts = calls_to(fd, S("vehicle_type_of"))
        prov_call = [c for c in vts if "param:2" in fd.slice_operand_pure(c, c.args[1])["atoms"]]
        recv_call = [c for c in vts if "param:3" in fd.slice_operand_pure(c, c.args[1])["atoms"]]
        scans = compat_scan_calls(ctx, fd)
        if len(prov_call) != 1 or len(recv_call) != 1 or not scans:
            ctx.undecided(o, "could not identify the provider/receiver type lookups and the scan (%d/%d/%d)" % (len(prov_call), len(recv_call), len(scans)))
        else:
            it = optabs.OptInterp(fd.body, {recv_call[0].id: "O", prov_call[0].id: "E"}, watch=[c.id for c in scans])
            it.run()
            if not it.paths:
                ctx.undecided(o, "no returning path found under (receiver real, provider dummy)")
            else:
                skipped = [p for p in it.paths if not p]
                ctx.decide(o, not skipped, "all %d returning paths pass the compatibility scan" % len(it.paths),
                           "with a real receiver and a dummy provider (vehicle_type_of(provider) is Err) there is a path that returns "
                           "without scanning the moved nodes: a trip parked in a dummy tour can be handed to a vehicle of another type",
                           loc=scans[0].line())


def tour_producers(ctx):
    common.who_may_construct(ctx, "R1.tour-aggregate", TOUR, [T("new_precomputed")], "a Tour value is assembled only in Tour::new_precomputed")
    common.who_may_call(ctx, "R1.new_precomputed-callers", T("new_precomputed"),
                        [T("new_computing"), T("replace_start_depot"), T("replace_end_depot"), T("remove"), T("insert_path")],
                        "new_precomputed (trusted caches, unchecked nodes) is called only from the five reviewed producers", floor=5)
    common.who_may_call(ctx, "R1.new_computing-callers", T("new_computing"), [T("new_allow_invalid"), T("new_dummy")],
                        "new_computing (unchecked nodes) is called only from the validating constructor and the dummy constructor", floor=2)
    common.who_may_call(ctx, "R1.new_allow_invalid-callers", T("new_allow_invalid"), [T("new")],
                        "the constructor that can return an invalid tour inside its error is used only by Tour::new, which drops it")
    must_depend(ctx, "R2.constructor-validates", "T1", T("new_allow_invalid"), "dec",
                [call(ND("is_start_depot")), call(ND("is_end_depot")), call(ND("is_depot")), call(N("can_reach"))],
                "Tour::new accepts a node sequence only if it starts/ends at depots, has a non-depot node, no inner depot, and every pair is connectable")
    o, fd = ctx.require_fn("R2.new-drops-invalid-tour", "T1", T("new"), "Tour::new never hands out the invalid tour carried by the error")
    if fd is not None:
        at = fd.ret_slice()["atoms"]
        ok = call(T("new_allow_invalid")) in at and has_method(at, "core::result::Result::map_err")
        ctx.decide(o, ok, "Result::map_err keeps only the message", "Tour::new does not go through new_allow_invalid(..).map_err(..)")
    for fn, test in (("replace_start_depot", "is_start_depot"), ("replace_end_depot", "is_end_depot")):
        must_depend(ctx, "R3.%s-checks-kind" % fn, "T1", T(fn), "dec", [call(ND(test)), field(TOUR, "is_dummy"), "param:2"],
                    "%s is refused for dummy tours and for nodes of the wrong depot kind" % fn)
    must_depend(ctx, "R4.remove-checks-removable", "T1", T("remove"), "dec", [call(T("check_if_sequence_is_removable")), call(T("position_of"))],
                "Tour::remove is refused unless the gap it leaves is connectable and no depot is stranded")
    must_depend(ctx, "R4.removable-test", "T1", T("check_if_sequence_is_removable"), "dec", [call(N("can_reach")), field(TOUR, "is_dummy")],
                "the removability test asks can_reach for the two nodes around the gap")
    o, fd = ctx.require_fn("R5.insert-at-computed-positions", "T1", T("insert_path"),
                           "insert_path replaces exactly the block between the positions computed by get_insert_positions")
    if fd is not None:
        sp = calls_to(fd, "alloc::vec::Vec::splice")
        ok = len(sp) == 1 and call(T("get_insert_positions")) in fd.slice_operand_pure(sp[0], sp[0].args[1])["atoms"]
        ctx.decide(o, ok, "splice range <- get_insert_positions", "the spliced range does not come from get_insert_positions")
    for f in ("latest_not_reaching_node", "latest_not_reached_by_node"):
        must_depend(ctx, "R5.%s-asks-can_reach" % f, "T1", T(f), "ret", [call(N("can_reach")), "param:2"], "%s is decided by can_reach" % f)
    must_depend(ctx, "R5.insert-positions", "T1", T("get_insert_positions"), "ret",
                [call(T("latest_not_reaching_node")), call(T("latest_not_reached_by_node")), call(ND("is_depot"))],
                "insert positions come from the two reachability searches and the depot test")
    must_depend(ctx, "R9.spawn-validates-tour", "T1", S("spawn_vehicle_for_path"), "ret", [call(T("new")), call(S("add_suitable_start_and_end_depot_to_path"))],
                "a spawned vehicle's tour goes through the validating constructor Tour::new")
    must_depend(ctx, "R9.dummy-tours-hold-service-trips-only", "T1", T("new_dummy"), "ret", [call(ND("is_service"))],
                "dummy tours keep only service trips")


def has_len():
    return call("alloc::vec::Vec::len")


def flow_arcs(ctx):
    fd, edges = flownet.edge_sites(ctx)
    o, e = flownet.role(ctx, "R8.arcs-along-predecessors", edges, "connection",
                        "connection arcs of the flow network are created only inside the loop over Network::predecessors")
    if e is not None and fd is not None:
        ctl = fd.slice(seed_blocks=[e.instr.bb])["atoms"]
        ok = call(N("predecessors")) in ctl and e.add_edge is not None
        ctx.decide(o, ok, "the connection add_edge is control dependent on the predecessors iterator",
                   "the connection arc is not created from Network::predecessors", loc=e.instr.line())
    must_depend(ctx, "R8.predecessors-filter", "T1", N("predecessors"), "ret", [call(N("can_reach"))],
                "predecessors are filtered through can_reach")


def rules(ctx):
    tour_producers(ctx)
    type_guards(ctx)
    from . import formulas as _f
    _f.schedule_predicates(ctx, "R6")
    before = len(ctx.obligations)
    timing_rule(ctx)
    for o in ctx.obligations[before:]:
        o.id = o.id.replace("C01/R3.", "C01/R7.")
    flow_arcs(ctx)
    # the insertion / removal decisions rest on the position walks and the gap test (shared with C12)
    from .C12 import scans_are_loops, gap_guard, gap_operands, bisection_rules, path_new_checks_every_hop
    from .C17 import loader_subset as _ls
    _ls(ctx, ["Config-new-positional"])       # the turnaround times the tours are checked against are the instance's own
    path_new_checks_every_hop(ctx, "R8")     # the constructor that vouches for "consecutive nodes are connectable"
    before = len(ctx.obligations)
    bisection_rules(ctx)
    _b = len(ctx.obligations)
    from . import formulas
    formulas.tour_formulas(ctx, "R3")
    ctx.obligations[_b:] = [o for o in ctx.obligations[_b:] if "reference-time" in o.id]
    scans_are_loops(ctx)
    gap_operands(ctx)
    gap_guard(ctx)
    for o in ctx.obligations[before:]:
        o.id = o.id.replace("C01/R", "C01/R8.positions.R")
    from . import formulas
    before = len(ctx.obligations)
    formulas.network_formulas(ctx, "R9")
    formulas.network_predicates(ctx, "R9")
    ctx.obligations[before:] = [o for o in ctx.obligations[before:] if "idle_time" not in o.id and "maintenance_considered" not in o.id]
    from . import order
    order.pair_order(ctx, "R2", only={N("can_reach")})
    # travel times used by the timing rule are the input's own matrix entries (shared with C17)
    from .C17 import loader_subset, getters
    loader_subset(ctx, ["dead-head-matrix", "DeadHeadTrip-new", "Locations-new", "create_service_trip.arg-vehicle_type",
                        "create_service_trip.arg-origin", "create_service_trip.arg-destination", "create_service_trip.arg-departure",
                        "create_service_trip.arg-arrival", "create_service_trip-positional", "Shunting", "shunting", "forbid"])
    before = len(ctx.obligations)
    getters(ctx)
    ctx.obligations[before:] = [o for o in ctx.obligations[before:] if any(k in o.id for k in ("travel_time", "dead-head-direction", "start_time", "end_time", "start_location", "end_location", "vehicle_type"))]
