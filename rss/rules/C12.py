"""C12 - tour edits follow the insert/remove reference semantics.

The position logic is value-level (binary searches over times).  Decided: that insert_path reports
exactly the block it cut out, that refusals are decided on the documented tests, and the tie case:
a time prefilter in front of can_reach must be strict because can_reach admits equality."""
from ..rulelib import *
from . import common

NOTE = ("Static checks on Tour's edit functions: hand-back flow of the removed block (dependence slices), refusal "
        "decisions (decision slices), and a tie-consistency recogniser for the time prefilters of the position "
        "search (normalised comparison operators from MIR). Longest-prefix/suffix optimality and the arithmetic of "
        "positions are NOT decided.")

CMPS = {"core::cmp::PartialOrd::lt": "<", "core::cmp::PartialOrd::le": "<=",
        "core::cmp::PartialOrd::gt": ">", "core::cmp::PartialOrd::ge": ">="}
FLIP = {"<": ">", "<=": ">=", ">": "<", ">=": "<="}
SPLICE = "alloc::vec::Vec::splice"


def prefilter_functions(ctx):
    """private position searches of Tour: (&Tour, DateTime, usize, usize) -> Option<usize>"""
    out = []
    for k, s in ctx.prog.sigs.items():
        if s.get("impl_self") == TOUR and not s.get("impl_trait") and len(s["inputs_s"]) == 4 \
                and "DateTime" in s["inputs_s"][1] and s["inputs_s"][2] == "usize" and s["inputs_s"][3] == "usize" \
                and s["output_s"].endswith("Option<usize>"):
            out.append(k)
    return sorted(out)


def tie_prefilter(ctx):
    fns = prefilter_functions(ctx)
    o = ctx.ob("R3.prefilter-functions", "T8", TOUR, "the two time-prefilter searches of Tour are found by signature")
    ctx.decide(o, len(fns) >= 2, ", ".join(f.split("::")[-1] for f in fns),
               "expected 2 functions of shape (&Tour, DateTime, usize, usize) -> Option<usize>, found %d" % len(fns))
    for k in fns:
        fd = ctx.fd(k)
        cmps = []
        for c in fd.body.calls():
            if c.callee not in CMPS:
                continue
            a0 = fd.slice_operand_pure(c, c.args[0])["atoms"]
            a1 = fd.slice_operand_pure(c, c.args[1])["atoms"]
            for lhs, rhs, op in ((a0, a1, CMPS[c.callee]), (a1, a0, FLIP[CMPS[c.callee]])):
                kind = "arrival" if call(ND("end_time")) in lhs else ("departure" if call(ND("start_time")) in lhs else None)
                if kind and "param:2" in rhs and not (call(ND("end_time")) in rhs or call(ND("start_time")) in rhs):
                    cmps.append((c, kind, op))
        name = k.split("::")[-1]
        o = ctx.ob("R3.%s.strict-prefilter" % name, "T12", k,
                   "%s: nodes whose time equals the reference time are not excluded before can_reach is asked" % name)
        ctx.call_sites += len(cmps)
        if not cmps:
            ctx.undecided(o, "no comparison of a node time with the reference time recognised")
            continue
        bad, und = [], []
        for c, kind, op in cmps:
            if kind == "arrival":
                # 'arrives after time' marks nodes that surely cannot reach: must be strict
                if op == ">=":
                    bad.append((c, "`end_time >= time` also marks a node arriving exactly at the reference time as "
                                   "'cannot reach', although can_reach admits arrival + 0 turnaround == start"))
                elif op != ">":
                    und.append((c, op))
            else:
                if op == "<=":
                    bad.append((c, "`start_time <= time` also marks a node starting exactly at the reference time as "
                                   "'cannot be reached', although can_reach admits end + 0 turnaround == start"))
                elif op != "<":
                    und.append((c, op))
        if bad:
            ctx.bad(o, "%s at %s: back-to-back connectable nodes get dropped" % (bad[0][1], ", ".join(b[0].line() for b in bad)),
                    loc=bad[0][0].line())
        elif und:
            ctx.undecided(o, "comparison form(s) not recognised: %s" % ", ".join("%s at %s" % (op, c.line()) for c, op in und))
        else:
            ctx.ok(o, "%d strict comparison(s)" % len(cmps))


def bisection_rules(ctx, rid="R3"):
    """the two bisections over a tour: which time of a node they look at, when they stop, and which half they keep"""
    from .. import optabs, shape
    spec = {"latest_departure_before": ("start_time", "end_time", "Lt"), "earliest_arrival_after": ("end_time", "start_time", "Gt")}
    for name, (want, other, _) in spec.items():
        key = T(name)
        o, fd = ctx.require_fn("%s.%s.compares-%s" % (rid, name, want.replace("_", "-")), "T12", key,
                               "%s looks at the %s of the tour's nodes only" % (name, want))
        if fd is None:
            continue
        direct = {(c.callee or "").split("::")[-1] for c in fd.body.calls()}
        if other in direct:
            ctx.bad(o, "%s compares a node's %s with the reference time: the position it returns is not the %s" % (
                name, other, "last node departing before it" if want == "start_time" else "first node arriving after it"))
        elif want in direct:
            ctx.ok(o, "only %s is read" % want)
        else:
            ctx.undecided(o, "no node time is read directly")
        o2 = ctx.ob("%s.%s.stops-on-a-single-node" % (rid, name), "T12+abs", key,
                    "%s answers directly iff the interval holds one node (left + 1 == right) and recurses on a half otherwise" % name)
        cmps = [i for i in fd.body.instrs() if i.kind == "assign" and i.rv_kind() == "binop" and i.rv["op"] in ("Eq", "Ne") and i.rv.get("aty", "").startswith("usize")
                and all(any(a.startswith("param:") for a in fd.slice_operand_pure(i, op)["atoms"]) for op in i.ops)]      # not the compiler's `2 == 0` check
        if len(cmps) != 1:
            ctx.undecided(o2, "the interval test is not recognised")
            continue
        ins = cmps[0]
        res = {}
        for single in (True, False):
            v = "T" if (single == (ins.rv["op"] == "Eq")) else "F"
            it = optabs.OptInterp(fd.body, {ins.id: v})
            it.run()
            rec = [any(c == key for c in r["calls"]) for r in it.records]
            res[single] = rec
            if any(r.get("gave_up") for r in it.records) or it.steps > 20000:
                res = None
                break
        if res is None:
            ctx.undecided(o2, "the search is written as a loop: its paths are not enumerated")
        elif res[True] and res[False] and not any(res[True]) and all(res[False]):
            ctx.ok(o2, "single node: no recursion; otherwise: recursion on every path")
        elif res[True] and any(res[True]) or (res[False] and not all(res[False])):
            ctx.bad(o2, "the single-node test at %s is inverted: with one node left the search recurses (for ever), with several it answers from "
                        "the first one" % ins.line(), loc=ins.line())
        else:
            ctx.undecided(o2, "paths not decided")


def path_new_checks_every_hop(ctx, rid="R1"):
    """Path::new is the validating constructor the modification API trusts: every consecutive pair of the node sequence is
    handed to can_reach (a sliding window of two over the WHOLE sequence)"""
    key = "solution::path::Path::new"
    o, fd = ctx.require_fn("%s.path-new-validates-every-hop" % rid, "T12", key,
                           "Path::new asks can_reach for every pair of consecutive nodes (sliding window over the whole sequence)")
    if fd is None:
        return
    NEXT = "core::iter::traits::iterator::Iterator::next"
    cr = [c for f in hosts(ctx, key, 1) for c in f.body.calls() if c.callee == N("can_reach")]
    if not cr:
        ctx.bad(o, "Path::new does not call Network::can_reach")
        return
    names = []
    for f in hosts(ctx, key, 1):
        for c in f.body.calls():
            if c.callee != N("can_reach"):
                continue
            for sw, cal, d in controlling_sources(f, c):
                if d is None or d.kind != "call" or not (d.decl == NEXT or (d.callee or "").endswith("::next")):
                    continue
                a = d.args[0]
                if a.place is None:
                    continue
                for base in (f.bases(a.place.local) or {a.place.local}):
                    for df in f.defs.get(base, ()):
                        i2 = df.instr
                        if df.kind == "assign" and i2 is not None and i2.rv_kind() == "use" and i2.ops:
                            i2 = direct_def_instr(f, i2.ops[0])
                        if i2 is not None and i2.kind == "call":
                            names.append((i2.callee or i2.decl or "").split("::")[-1])
                            names += [x.split("::")[-1] for x in direct_chain(f, i2.args[0])] if i2.args else []
    names = [n for n in names if n]
    sliding = {"tuple_windows", "windows", "array_windows"} & set(names)
    jumping = {"tuples", "chunks", "chunks_exact", "step_by", "array_chunks"} & set(names)
    dropping = {n for n in names if ("::" + n) in NARROWING}
    if jumping:
        ctx.bad(o, "the pairs are taken with %s(): the sequence is cut into disjoint pairs, so every second hop is never checked and an "
                "unconnectable path is accepted as valid" % sorted(jumping)[0], loc=cr[0].line())
    elif dropping:
        ctx.bad(o, "the node sequence goes through %s() before the pairs are formed: hops among the dropped nodes are never checked"
                % sorted(dropping)[0], loc=cr[0].line())
    elif sliding:
        ctx.ok(o, "can_reach inside a loop over %s()" % sorted(sliding)[0])
    else:
        ctx.undecided(o, "the iteration feeding can_reach is not a recognised sliding window (%s)" % ", ".join(names[:6]))


def node_orders(ctx, rid="R3"):
    """the two node orders the position searches rely on: by start time, ties by end time, then by index (and the mirror image);
    without the middle key a zero-length activity and its neighbour swap places and the binary searches miss nodes of the tour"""
    for fn, first, second in (("cmp_start_time", "start_time", "end_time"), ("cmp_end_time", "end_time", "start_time")):
        key = ND(fn)
        o, fd = ctx.require_fn("%s.%s.keys" % (rid, fn), "T1", key,
                               "%s orders by %s, then %s, then index" % (fn, first, second))
        if fd is None:
            continue
        thens = [c for c in fd.body.calls() if (c.callee or "").endswith("Ordering::then") or (c.callee or "").endswith("Ordering::then_with")]
        at = fd.ret_slice()["atoms"]
        miss = [x for x in (call(ND(first)), call(ND(second)), (call(ND("idx")), call("model::base_types::NodeIdx::idx"))) if missing_atoms(at, [x])]
        if miss:
            ctx.bad(o, "%s does not compare %s: nodes that tie on the remaining keys are ordered differently from the order the tours are "
                    "searched with" % (fn, fmt_missing(miss)), loc=(thens[0].line() if thens else None))
            continue
        # the primary key is the receiver of the outermost chain: a.cmp(b).then(..).then(..)
        prim = None
        if thens:
            inner = thens[0]
            for t in thens:
                if not any(d.instr is t2 for t2 in thens if t2 is not t for d in fd.slice_operand_pure(t, t.args[0])["defs"]):
                    inner = t
            a0 = fd.slice_operand_pure(inner, inner.args[0])["atoms"]
            prim = first if call(ND(first)) in a0 and call(ND(second)) not in a0 else (second if call(ND(second)) in a0 and call(ND(first)) not in a0 else None)
        if prim == second:
            ctx.bad(o, "%s compares %s first" % (fn, second), loc=thens[0].line())
        elif prim == first:
            ctx.ok(o, "%s, then %s, then index" % (first, second))
        else:
            ctx.undecided(o, "key order not recognised")


def distance_sub_keeps_infinity(ctx, rid="R3"):
    """Infinity - x = Infinity for every x (also x = Infinity): the cached dead-head distance of a tour that uses the overflow depot is
    updated with `self.dead_head_distance - removed + added`, all three possibly infinite"""
    key = "<model::base_types::distance::Distance as core::ops::arith::Sub>::sub"
    o, fd = ctx.require_fn("%s.distance-sub.infinity-minus-anything" % rid, "T12", key,
                           "Distance::sub panics only when a finite distance has Infinity (or more than itself) taken away: Infinity - x is Infinity")
    if fd is None:
        return
    DIST = "model::base_types::distance::Distance"
    panics = [c for c in fd.body.instrs() if c.kind == "call" and ("panic" in (c.callee or "") or "assert_failed" in (c.callee or ""))]
    if not panics:
        ctx.undecided(o, "no panic site found")
        return
    bad = []
    for pc in panics:
        on_self = False
        for sw, cal, d in controlling_sources(fd, pc):
            # the switch reads the discriminant of the minuend (parameter 1), possibly as the first component of a matched tuple
            for x in fd.slice(seed_locals=fd.operand_uses(sw.ops[0]), control=False)["defs"]:
                i2 = x.instr
                if i2 is not None and i2.kind == "assign" and i2.rv_kind() == "discr":
                    pl = i2.discr_place()
                    root = pl.local
                    if root_local(fd, root) == 1:
                        on_self = True
                    else:
                        # a tuple (self, other) built first: field 0 is self
                        ds = [y for y in fd.defs.get(root, ()) if y.instr is not None and y.instr.kind == "assign" and y.instr.rv_kind() == "agg"]
                        if ds and pl.proj and pl.proj[0].get("k") == "field":
                            fi = pl.proj[0].get("i")
                            op = ds[0].instr.ops[fi] if fi is not None and fi < len(ds[0].instr.ops) else None
                            if op is not None and op.place is not None and root_local(fd, op.place.local) == 1:
                                on_self = True
        if not on_self:
            bad.append(pc)
    if bad:
        ctx.bad(o, "a panic of Distance::sub is reached without looking at the minuend: Infinity - Infinity panics, so removing the activity "
                "next to the overflow depot from a tour aborts the solver", loc=str(getattr(fd.body, "span", "") or "").split(":")[0] or None)
    else:
        ctx.ok(o, "%d panic site(s), each behind a test of the minuend" % len(panics))


def trusted_path_keeps_maintenance(ctx, rid="R1"):
    """Path::new_trusted answers None only for depot-only sequences: a maintenance-only block (what remove / sub_path / conflict hand
    back when a slot is taken out) is a path"""
    key = "solution::path::Path::new_trusted"
    o, fd = ctx.require_fn("%s.new_trusted.none-only-for-depots" % rid, "T12", key,
                           "Path::new_trusted returns None iff every node of the sequence is a depot")
    if fd is None:
        return
    tests = set()
    for k in ctx.prog.family(key):
        for c in ctx.prog.bodies[k].calls():
            nm = (c.callee or "")
            if nm.startswith(ND("")) and nm.split("::")[-1].startswith("is_"):
                tests.add(nm.split("::")[-1])
    if tests and tests <= {"is_depot", "is_start_depot", "is_end_depot"}:
        ctx.ok(o, "decided by %s" % sorted(tests))
    elif tests and not (tests & {"is_depot", "is_start_depot", "is_end_depot"}) and len(tests & {"is_service", "is_maintenance"}) == 1:
        t = (tests & {"is_service", "is_maintenance"}).pop()
        ctx.bad(o, "whether a node sequence is a path is decided by %s() alone: a block of %s only is treated like 'nothing', so the nodes "
                "cut out of a tour are not handed back (or the caller's unwrap panics)" % (t, "maintenance slots" if t == "is_service" else "service trips"))
    else:
        ctx.undecided(o, "kind tests %s" % sorted(tests))


def depot_stripping(ctx, rid="R1"):
    """insert_path into a dummy tour strips a leading and a trailing depot of the path independently of each other"""
    key = T("insert_path")
    o, fd0 = ctx.require_fn("%s.insert_path.depots-stripped-independently" % rid, "T12", key,
                            "for a dummy tour the path's first node is dropped iff IT is a depot and the last node iff IT is a depot")
    if fd0 is None:
        return
    PATH = "solution::path::Path::"
    seen, bad = 0, []
    for fd in hosts(ctx, key, 1):
        for c in fd.body.calls():
            nm = (c.callee or "")
            if nm not in (PATH + "drop_first", PATH + "drop_last"):
                continue
            own, other = ("first", "last") if nm.endswith("drop_first") else ("last", "first")
            seen += 1
            ends = set()
            for sw, callee, d in controlling_sources(fd, c):
                if callee != ND("is_depot") or d is None or not d.args:
                    continue
                ch = direct_chain(fd, d.args[0], follow={N("node"): 1})
                for x in ch:
                    if x in (PATH + "first", PATH + "last"):
                        ends.add(x.split("::")[-1])
            if other in ends:
                bad.append((c, "%s() runs only when the %s node of the path is a depot as well" % (nm.split("::")[-1], other)))
            elif own not in ends:
                bad.append((c, "%s() does not depend on whether the %s node is a depot" % (nm.split("::")[-1], own)))
    if bad:
        ctx.bad(o, "%s (%s): a path with a depot at one end only keeps it / loses a trip when it is put into a dummy tour" % (bad[0][1], bad[0][0].line()),
                loc=bad[0][0].line())
    elif seen >= 2:
        ctx.ok(o, "%d stripping calls, each under its own depot test" % seen)
    else:
        ctx.undecided(o, "%d stripping call(s) found" % seen)


def hand_back(ctx):
    o, fd = ctx.require_fn("R1.insert_path-reports-what-it-cut", "T1", T("insert_path"),
                           "the path returned by insert_path is exactly what the splice removed from the node vector")
    if fd is not None:
        sp = calls_to(fd, SPLICE)
        ok = False
        detail = "no Vec::splice call found"
        if len(sp) == 1:
            ins = sp[0]
            rs = fd.ret_slice()
            in_ret = any(d.instr is ins for d in rs["defs"])
            rng = fd.slice_operand_pure(ins, ins.args[1])["atoms"]
            new = fd.slice_operand_pure(ins, ins.args[2])["atoms"]
            ok = in_ret and call(T("get_insert_positions")) in rng and "param:2" in new
            detail = "splice result in return: %s; range from get_insert_positions: %s; replacement from the path: %s" % (
                in_ret, call(T("get_insert_positions")) in rng, "param:2" in new)
        ctx.decide(o, ok, detail, detail)
    must_depend(ctx, "R1.insert-positions-sources", "T1", T("get_insert_positions"), "ret",
                [call(T("latest_not_reaching_node")), call(T("latest_not_reached_by_node")), call(ND("is_depot")), "param:2"],
                "insert positions come from the two reachability searches and the depot test")
    for f, other in (("latest_not_reaching_node", "earliest_arrival_after"), ("latest_not_reached_by_node", "latest_departure_before")):
        must_depend(ctx, "R1.%s-uses-can_reach" % f, "T1", T(f), "ret", [call(N("can_reach")), "param:2", field(TOUR, "nodes")],
                    "%s is decided by Network::can_reach over the tour's nodes" % f)
    o, fd = ctx.require_fn("R1.remove-returns-cut-block", "T1", T("remove"),
                           "remove returns the nodes between the two positions it looked up")
    if fd is not None:
        rs = fd.ret_slice()
        ctx.decide(o, call(T("position_of")) in rs["atoms"] and call(PATH + "::new_trusted") in rs["atoms"] and "param:2" in rs["atoms"],
                   "returned path is built from positions of the segment's ends", "returned path does not derive from position_of(segment ends)")


def refusals(ctx):
    must_depend(ctx, "R2.remove-refusal", "T1", T("remove"), "dec",
                [call(T("check_if_sequence_is_removable")), call(T("position_of"))],
                "remove is refused when the positions are unknown or the sequence is not removable")
    must_depend(ctx, "R2.check_removable-refusal", "T1", T("check_removable"), "ret",
                [call(T("check_if_sequence_is_removable")), call(T("position_of"))],
                "check_removable answers with the same test")
    must_depend(ctx, "R2.removable-test-sources", "T1", T("check_if_sequence_is_removable"), "dec",
                [call(N("can_reach")), field(TOUR, "is_dummy"), field(TOUR, "nodes"), "param:2", "param:3"],
                "removability is decided on the gap's reachability, the dummy flag and both positions")
    must_depend(ctx, "R2.sub_path-sources", "T1", T("sub_path"), "ret",
                [call(T("latest_not_reaching_node")), "param:2", field(TOUR, "nodes")],
                "sub_path is cut out of the tour's own nodes between the positions of the segment's ends")


def gap_test_for_both_kinds_of_tour(ctx, rid="R2"):
    """the gap left by a removal is tested for dummy tours as for real ones (a dummy tour is a path, too: override_reassign takes
    segments out of dummy tours).  Decided by following the paths of the function with the is_dummy flag fixed."""
    from .. import optabs
    key = T("check_if_sequence_is_removable")
    o, fd = ctx.require_fn("%s.gap-test-reached-for-dummy-and-real-tours" % rid, "T12+abs", key,
                           "the can_reach test across the gap is on a path of check_if_sequence_is_removable whether or not the tour is a dummy tour")
    if fd is None:
        return
    cr = calls_to(fd, N("can_reach"))
    if len(cr) != 1:
        ctx.undecided(o, "expected one can_reach call, found %d" % len(cr))
        return
    reached = {}
    for val, what in (("T", "dummy"), ("F", "real")):
        it = optabs.OptInterp(fd.body, {}, watch=[cr[0].id])
        it.field_values = {"field:%s.is_dummy" % TOUR: val}
        try:
            it.run()
        except Exception:
            ctx.undecided(o, "paths not explored")
            return
        if not it.paths or any(r.get("gave_up") for r in it.records):
            ctx.undecided(o, "paths not explored completely for %s tours" % what)
            return
        reached[what] = sum(1 for p in it.paths if p)
    miss = [w for w, n in reached.items() if n == 0]
    ctx.decide(o, not miss, "reached on %s" % ", ".join("%d path(s) for %s tours" % (n, w) for w, n in reached.items()),
               "for %s tours no path of check_if_sequence_is_removable reaches the can_reach test: a segment can be taken out although the "
               "nodes around it cannot follow each other, and the tour is no longer a path" % " and ".join(miss), loc=cr[0].line())


def gap_guard(ctx):
    """the reachability test across the gap is skipped only when there is no node in front / behind"""
    gap_test_for_both_kinds_of_tour(ctx)
    key = T("check_if_sequence_is_removable")
    o, fd = ctx.require_fn("R2.gap-test-guard", "T12", key,
                           "the can_reach test across the gap is performed whenever a node exists in front of and behind the removed block")
    if fd is None:
        return
    cr = calls_to(fd, N("can_reach"))
    if len(cr) != 1:
        ctx.undecided(o, "expected one can_reach call, found %d" % len(cr))
        return
    found = []
    for sw, cal, d in controlling_sources(fd, cr[0]):
        if d is not None and d.kind == "assign" and d.rv_kind() == "binop" and d.rv["op"] in ("Gt", "Ge", "Lt", "Le", "Ne", "Eq"):
            a, b = d.ops
            for x, y, flip in ((a, b, False), (b, a, True)):
                if x.place is not None and y.const_val() is not None:
                    at = fd.slice_operand_pure(d, x)["atoms"]
                    if "param:2" in at and not any(t.startswith("call:") for t in at):
                        op = d.rv["op"] if not flip else {"Gt": "Lt", "Lt": "Gt", "Ge": "Le", "Le": "Ge"}.get(d.rv["op"], d.rv["op"])
                        found.append((d, op, y.const_val()))
    if not found:
        ctx.undecided(o, "no comparison of start_position with a constant controls the gap test")
        return
    # the other side of the guard: end_position < len - 1 (a node exists behind the block)
    from .. import shape as _sh
    direct_parents = set(fd.cfg.cdep().get(cr[0].bb, ()))      # the tests of this very condition, not the earlier refusals
    for sw, cal, d2 in controlling_sources(fd, cr[0]):
        if sw.bb not in direct_parents:
            continue
        if d2 is not None and d2.kind == "assign" and d2.rv_kind() == "binop" and d2.rv["op"] in ("Lt", "Le", "Gt", "Ge"):
            e = _sh.normalise(_sh.expr_of_instr(fd, d2))
            for side_e, other_e in ((e[2], e[3]), (e[3], e[2])):
                if any(c_.endswith("::len") for c_ in _sh.calls_of(side_e)) and other_e == ("param", 3):
                    txt = _sh.show(side_e)
                    ok_form = side_e[0] == "bin" and side_e[1] == "Sub" and side_e[2][0] == "call" and side_e[3][0] == "const" and (
                        (str(side_e[3][1]).startswith("1") and e[1] == "Lt") or (str(side_e[3][1]).startswith("2") and e[1] == "Le"))
                    if not ok_form and side_e[0] == "bin" and side_e[1] == "Sub":
                        ctx.bad(o, "the gap test is only performed when end_position %s %s: a block that ends at the second-to-last node is removed "
                                "without testing that its neighbours can be connected" % ("<" if e[1] == "Lt" else "<=", txt), loc=d2.line())
                        return
    d, op, c = found[0]
    good = (op == "Gt" and c == 0) or (op == "Ge" and c == 1) or (op == "Ne" and c == 0)
    ctx.decide(o, good, "start_position %s %d" % ({"Gt": ">", "Ge": ">=", "Ne": "!="}.get(op, op), c),
               "the gap test is only performed when start_position %s %d: removing a block that starts at position 1 skips the "
               "connectability test although node 0 exists in front of it" % ({"Gt": ">", "Ge": ">=", "Lt": "<", "Le": "<="}.get(op, op), c),
               loc=d.line())


def none_means_all_reachable(ctx):
    """the two searches answer None only on the early exit where can_reach holds for the extreme node"""
    for fn in ("latest_not_reaching_node", "latest_not_reached_by_node"):
        key = T(fn)
        o, fd = ctx.require_fn("R1.%s.none-only-if-reachable" % fn, "T1", key,
                               "%s answers None only when the tour's extreme node is connectable with the given node" % fn)
        if fd is None:
            continue
        bad = []
        for d in fd.defs.get(0, ()):
            i = d.instr
            if i is None:
                continue
            if i.kind == "assign" and i.rv_kind() == "agg" and i.rv.get("adt") == "core::option::Option":
                if i.rv.get("v") == "Some":
                    continue
                cs = controlling_sources(fd, i)
                if not cs or any(cal != N("can_reach") for sw, cal, dd in cs):
                    bad.append(i)
            else:
                bad.append(i)
        ctx.decide(o, not bad, "None is assigned only under can_reach(..)",
                   "the result can also be None at %s without can_reach holding (e.g. an early `?` return): the caller then treats all "
                   "tour nodes as connectable and nothing is dropped" % (bad[0].line() if bad else "?"), loc=bad[0].line() if bad else None)


def scans_are_loops(ctx):
    """after the prefilter candidate the searches keep walking while can_reach fails: the walk is a loop"""
    for fn in ("latest_not_reaching_node", "latest_not_reached_by_node"):
        o, fd = ctx.require_fn("R1.%s.walk-is-a-loop" % fn, "T1", T(fn),
                               "%s walks over all further unreachable nodes (a loop around can_reach), not just one" % fn)
        if fd is None:
            continue
        crs = calls_to(fd, N("can_reach"))
        inloop = [c for c in crs if c.bb in (set().union(*[fd.cfg.reachable_from(s) for s in fd.cfg.succ[c.bb]]) if fd.cfg.succ[c.bb] else set())]
        ctx.decide(o, bool(inloop), "%d can_reach test(s) inside a loop" % len(inloop),
                   "no can_reach test of %s lies inside a loop: only one further node is examined, later unreachable nodes stay in the tour" % fn)


def gap_operands(ctx):
    """the gap test connects the node before the removed block with the node after it"""
    key = T("check_if_sequence_is_removable")
    if key not in ctx.prog.bodies:
        return
    from .order import _index_offset
    o, fd = ctx.require_fn("R2.gap-test-operands", "T12", key, "the gap test asks can_reach(nodes[start-1], nodes[end+1])")
    cr = calls_to(fd, N("can_reach"))
    if len(cr) != 1:
        ctx.undecided(o, "expected one can_reach call")
        return
    a = _index_offset(fd, cr[0], cr[0].args[1])
    b = _index_offset(fd, cr[0], cr[0].args[2])
    if a is None or b is None:
        ctx.undecided(o, "index expressions not recognised")
        return
    pa = {fd.body.local_name(l) or l for l in a[0]}
    pb = {fd.body.local_name(l) or l for l in b[0]}
    ra = {l for l in a[0] if 1 <= l <= fd.body.argc}
    rb = {l for l in b[0] if 1 <= l <= fd.body.argc}
    ok = ra == {2} and a[1] == -1 and rb == {3} and b[1] == 1
    ctx.decide(o, ok, "can_reach(nodes[start_position - 1], nodes[end_position + 1])",
               "the gap test uses nodes[%s%+d] and nodes[%s%+d] instead of the node before the start position and the node after the end position"
               % (sorted(pa), a[1], sorted(pb), b[1]), loc=cr[0].line())


def rules(ctx):
    scans_are_loops(ctx)
    gap_operands(ctx)
    gap_guard(ctx)
    none_means_all_reachable(ctx)
    hand_back(ctx)
    depot_stripping(ctx)
    from .C17 import loader_subset as _ls
    _ls(ctx, ["Config-new-positional"])       # can_reach, which every position search asks, uses the instance's own shunting times
    path_new_checks_every_hop(ctx)
    node_orders(ctx)
    distance_sub_keeps_infinity(ctx)
    trusted_path_keeps_maintenance(ctx)
    refusals(ctx)
    tie_prefilter(ctx)
    bisection_rules(ctx)
    from . import formulas
    before = len(ctx.obligations)
    formulas.tour_formulas(ctx, "R3")
    ctx.obligations[before:] = [o for o in ctx.obligations[before:] if "reference-time" in o.id]
    from .C13 import tour_vanishes_rule
    tour_vanishes_rule(ctx, "R2")
