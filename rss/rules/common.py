"""Rule groups shared by several properties (coupled updates, lost updates, producers)."""
from .. import prov
from ..rulelib import *

SCHEDULE_NEW = S("new")
TOUR_PRE = T("new_precomputed")

SCHEDULE_PAIRS = [
    ("tours", "costs", "a tour is replaced but the cached total costs are inherited"),
    ("tours", "depot_usage", "a tour is replaced but the depot usage is inherited"),
    ("tours", "next_period_transitions", "a tour is replaced but the rotation cycles' counters are inherited"),
    ("next_period_transitions", "maintenance_violation",
     "the rotation cycles change but the cached maintenance violation is inherited"),
    ("maintenance_violation", "next_period_transitions",
     "the cached maintenance violation changes but the cycles are inherited"),
    ("train_formations", "unserved_passengers", "formations change but cached unserved passengers are inherited"),
    ("unserved_passengers", "train_formations", "unserved passengers change but formations are inherited"),
    ("vehicles", "vehicle_ids_grouped_and_sorted", "vehicle set changes but the sorted id listing is inherited"),
    ("vehicle_ids_grouped_and_sorted", "vehicles", "sorted id listing changes but the vehicle set is inherited"),
    ("vehicles", "tours", "vehicle set changes but the tours are inherited"),
    ("dummy_tours", "dummy_ids_sorted", "dummy tours change but the sorted dummy listing is inherited"),
    ("dummy_ids_sorted", "dummy_tours", "sorted dummy listing changes but the dummy tours are inherited"),
    ("costs", "tours", "costs change but tours are inherited"),
    ("depot_usage", "tours", "depot usage changes but tours are inherited"),
]

TOUR_PAIRS = [
    ("nodes", "dead_head_distance", "node sequence changes but the cached dead-head distance is inherited"),
    ("nodes", "costs", "node sequence changes but the cached costs are inherited"),
    ("nodes", "useful_duration", "node sequence changes but the cached useful duration is inherited"),
    ("nodes", "service_distance", "node sequence changes but the cached service distance is inherited"),
    ("nodes", "visits_maintenance", "node sequence changes but the cached visits-maintenance flag is inherited"),
]
# depots have zero duration, zero travel distance and are never maintenance slots, so replacing
# only a depot legitimately keeps these three caches
TOUR_PAIR_EXEMPT = {
    (T("replace_start_depot"), "useful_duration"): "only the start depot node is replaced; depots have no duration",
    (T("replace_start_depot"), "service_distance"): "only the start depot node is replaced; depots have no travel distance",
    (T("replace_start_depot"), "visits_maintenance"): "only the start depot node is replaced; a depot is not a maintenance slot",
    (T("replace_end_depot"), "useful_duration"): "only the end depot node is replaced; depots have no duration",
    (T("replace_end_depot"), "service_distance"): "only the end depot node is replaced; depots have no travel distance",
    (T("replace_end_depot"), "visits_maintenance"): "only the end depot node is replaced; a depot is not a maintenance slot",
}

TRANSITION_PAIRS = [
    ("cycles", "total_maintenance_violation", "cycles change but the cached total violation is inherited"),
    ("cycles", "total_maintenance_counter", "cycles change but the cached total counter is inherited"),
    ("empty_cycles", "cycles", "the list of reusable empty cycles changes but the cycles are inherited"),
    ("cycle_lookup", "cycles", "the vehicle-to-cycle lookup changes but the cycles are inherited"),
]


def short(key):
    return key.split("::")[-1]


def sites_of(ctx, adt):
    if adt == SCHEDULE:
        return prov.producer_sites(ctx.an, SCHEDULE, ctors=[SCHEDULE_NEW])
    if adt == TOUR:
        return prov.producer_sites(ctx.an, TOUR, ctors=[TOUR_PRE])
    return prov.producer_sites(ctx.an, adt)


def site_tag(sites, s):
    """stable tag of a site: function name, plus ordinal if a function has several sites"""
    same = [x for x in sites if x.fn == s.fn]
    if len(same) == 1:
        return short(s.fn)
    return "%s#%d" % (short(s.fn), same.index(s))


def coupled_updates(ctx, rid, adt, pairs, floor, exempt=None, only_pairs=None):
    """T2: in every producer of `adt`, A not Same => B not Same"""
    exempt = exempt or {}
    sites = sites_of(ctx, adt)
    adtn = adt.split("::")[-1]
    o = ctx.ob("%s.producers-%s" % (rid, adtn), "T8", adt,
               "at least %d construction sites of %s are found and classified" % (floor, adtn))
    ctx.floor(o, len(sites), floor, "construction sites of %s" % adtn, sample={"sites": [s.fn for s in sites]})
    for s in sites:
        ctx.functions.add(s.fn)
        row = s.row()
        for a, b, why in pairs:
            if only_pairs and (a, b) not in only_pairs:
                continue
            if a not in s.fields or b not in s.fields:
                continue
            oid = "%s.%s.%s=>%s" % (rid, site_tag(sites, s), a, b)
            o = ctx.ob(oid, "T2", s.fn, "%s: %s rebuilt => %s rebuilt" % (short(s.fn), a, b))
            o.loc = s.instr.line()
            ca, cb = s.fields[a], s.fields[b]
            if (s.fn, b) in exempt and ca.kind != "same" and cb.kind == "same":
                ctx.ok(o, "exempt: %s" % exempt[(s.fn, b)], sample=row)
                continue
            if ca.kind != "same" and cb.kind == "same":
                ctx.bad(o, "%s builds a %s whose `%s` is %s but whose `%s` is an unmodified copy of self.%s: %s"
                        % (short(s.fn), adtn, a, "modified" if ca.kind == "changed" else "new", b, b, why),
                        loc=s.instr.line(), sample=row)
            elif (a, b) in ALWAYS_TOGETHER and ca.kind == "changed" and cb.kind == "changed" and _unconditional(ctx, s, ca) \
                    and not _unconditional(ctx, s, cb) and not _condition_looks_at_new_tour(ctx, s, cb, b):
                w = [x.instr for x in cb.writes if x.instr is not None]
                ctx.bad(o, "%s rebuilds `%s` on every path to this result but `%s` only under a condition (%s): on the other paths `%s` is stale: %s"
                        % (short(s.fn), a, b, ", ".join(i.line() for i in w[:2]), b, why), loc=w[0].line() if w else s.instr.line(), sample=row)
            else:
                ctx.ok(o, "%s=%s %s=%s" % (a, ca.short(), b, cb.short()), sample=row)
    return sites


# pairs whose second member is maintained by a helper that itself does nothing when nothing changed: on the reference tree it is
# called on every path; a caller-side condition is accepted only if it compares what the helper maintains (the tour's depots / costs)
ALWAYS_TOGETHER = {("tours", "depot_usage"), ("tours", "next_period_transitions"), ("tours", "costs")}
TOUR_GETTERS = ("start_depot", "end_depot", "first_node", "last_node", "costs", "maintenance_counter", "total_distance")


def _condition_looks_at_new_tour(ctx, s, c, what=None):
    """the extra condition under which `what` is updated compares what the helper maintains: for the depot usage BOTH the start and
    the end depot of the tour, for the others any figure of the new tour"""
    fd = ctx.an.fd(s.fn)
    seen_getters = set()
    for w in c.writes:
        if w.instr is None:
            continue
        site_ctl = {sw.bb for sw, _c, _d in controlling_sources(fd, s.instr)}
        for sw, cal, d in controlling_sources(fd, w.instr):
            if sw.bb in site_ctl:
                continue        # an early exit guards the write and the result alike; only the extra conditions matter
            # direct provenance of the condition (both sides of a comparison), not its whole slice: insert_path / remove also
            # return the displaced path, and a condition on THAT says nothing about the depots of the new tour
            names = list(direct_chain(fd, sw.ops[0]))
            top = direct_def_instr(fd, sw.ops[0])
            guard = 0
            while top is not None and top.kind == "assign" and top.rv_kind() in ("unop", "use") and top.ops and guard < 4:
                guard += 1
                top = direct_def_instr(fd, top.ops[0])
            if top is not None:
                ops = top.args if top.kind == "call" else (top.ops if top.kind == "assign" else [])
                for op in ops:
                    names += list(direct_chain(fd, op))
            seen_getters |= {g for g in TOUR_GETTERS for n in names if n == T(g)}
    if what == "depot_usage":
        return bool(seen_getters & {"start_depot", "first_node"}) and bool(seen_getters & {"end_depot", "last_node"})
    return bool(seen_getters)


def _unconditional(ctx, s, c):
    """some write to the working copy happens on every path that reaches the construction site"""
    fd = ctx.an.fd(s.fn)
    if fd is None:
        return True
    ws = [w.instr for w in c.writes if w.instr is not None]
    if not ws:
        return True
    return any(fd.cfg.instr_dominates(w, s.instr) for w in ws)


def bookkeeping_sees_new_maps(ctx, rid, sites):
    """a helper of impl Schedule that is handed a vehicle->tour / vehicle map inside a producer is handed the producer's working
    copy, not the map of the old schedule, whenever the producer rebuilds that map"""
    want = {"Tour": "tours", "Vehicle": "vehicles"}
    by_fn = {}
    for s in sites:
        by_fn.setdefault(s.fn, []).append(s)
    for fn, ss in sorted(by_fn.items()):
        fd = ctx.an.fd(fn)
        sp = prov.self_param_of(fd.body, SCHEDULE)
        if sp is None:
            continue
        bad, n = [], 0
        for c in fd.body.calls():
            if not (c.callee or "").startswith(SCHEDULE + "::") or c.callee == SCHEDULE_NEW:
                continue
            for ai, a in enumerate(c.args):
                if a.place is None or not a.place.is_local:
                    continue
                ty = fd.body.local_ty(a.place.local)
                fld = None
                for tname, f in want.items():
                    if ty.startswith("&") and "HashMap<" in ty and ("::%s," % tname in ty or "::%s>" % tname in ty or " %s," % tname in ty or " %s>" % tname in ty):
                        fld = f
                if fld is None:
                    continue
                origin = prov.ref_origin(fd, a.place.local, sp)
                n += 1
                if origin != (fld,):
                    continue
                # the old map is handed over: is the map rebuilt in a result this call can reach?
                reach = fd.cfg.reachable_from(c.bb)
                for s in ss:
                    cl = s.fields.get(fld)
                    if cl is not None and cl.kind != "same" and s.instr.bb in reach:
                        bad.append((c, fld))
                        break
        if not n:
            continue
        o = ctx.ob("%s.%s.helpers-see-new-maps" % (rid, short(fn)), "T2", fn,
                   "%s: bookkeeping helpers are handed the rebuilt tours / vehicles, not self's" % short(fn))
        if bad:
            c, fld = bad[0]
            ctx.bad(o, "%s at %s is handed &self.%s although %s rebuilds `%s`: the helper computes its update from the OLD %s, so the "
                    "caches it maintains describe the schedule before the change" % (short(c.callee), c.line(), fld, short(fn), fld, fld), loc=c.line())
        else:
            ctx.ok(o, "%d map argument(s), none is the stale self.%s" % (n, "tours/vehicles"))


def lost_update_rule(ctx, rid, adt, sites):
    """T3: no working copy of self.F is written and then dropped"""
    seen = set()
    for s in sites:
        if s.fn in seen:
            continue
        seen.add(s.fn)
        o = ctx.ob("%s.%s.no-lost-update" % (rid, short(s.fn)), "T3", s.fn,
                   "%s: every modified working copy of a field of self reaches the result" % short(s.fn))
        lost = prov.lost_updates(ctx.an, s.fn, adt)
        if lost:
            fd = ctx.an.fd(s.fn)
            desc = []
            for l, c in lost:
                w = c.writes[0].instr if c.writes and c.writes[0].instr else None
                desc.append("%s (copy of self.%s, modified at %s) is never used for the result"
                            % (fd.body.describe_local(l), ".".join(map(str, c.field)), w.line() if w else "?"))
            ctx.bad(o, "; ".join(desc), loc=(lost[0][1].writes[0].instr.line() if lost[0][1].writes and lost[0][1].writes[0].instr else None))
        else:
            ctx.ok(o)


def frame_rule(ctx, rid, adt, sites, fn_key, must_same, text):
    """T2 frame condition: the listed fields are unmodified copies of self"""
    ss = [s for s in sites if s.fn == fn_key]
    o = ctx.ob("%s.%s.frame" % (rid, short(fn_key)), "T2", fn_key, text)
    if not ss:
        if fn_key not in ctx.prog.bodies:
            ctx.anchor_gone(o, fn_key)
        else:
            o.status = "anchor-missing"
            o.detail = "no construction site of %s in %s" % (adt.split("::")[-1], fn_key)
        return
    bad = []
    for s in ss:
        for f in must_same:
            c = s.fields.get(f)
            if c is None or c.kind != "same" or c.field != (f,):
                bad.append((s, f, c))
    if bad:
        ctx.bad(o, "; ".join("`%s` is %s instead of an unmodified copy of self.%s" % (f, c, f) for s, f, c in bad),
                loc=bad[0][0].instr.line(), sample=ss[0].row())
    else:
        ctx.ok(o, "all of %s inherited unchanged" % ", ".join(must_same), sample=ss[0].row())


def who_may_call(ctx, oid, callee, allowed_prefixes, text, floor=1):
    """T8: every caller of `callee` lies inside the allowed impl / module prefixes"""
    o = ctx.ob(oid, "T8", callee, text)
    if callee not in ctx.prog.bodies:
        ctx.anchor_gone(o, callee)
        return []
    cs = callers_of(ctx.prog, callee)
    ctx.call_sites += len(cs)
    bad = [(k, i) for k, i in cs if not any(fn_of_closure(k).startswith(p) for p in allowed_prefixes)]
    if len(cs) < floor:
        ctx.floor(o, len(cs), floor, "call sites of %s" % short(callee))
    elif bad:
        ctx.bad(o, "called from outside its owner: %s" % ", ".join("%s at %s" % (k, i.line()) for k, i in bad),
                loc=bad[0][1].line())
    else:
        ctx.ok(o, "%d call sites, all inside %s" % (len(cs), ", ".join(allowed_prefixes)),
               sample={"callers": sorted({fn_of_closure(k) for k, _ in cs})})
    return cs


def who_may_construct(ctx, oid, adt, allowed, text):
    """T8: Aggregate(adt) appears only in the allowed functions (+ derived Clone)"""
    o = ctx.ob(oid, "T8", adt, text)
    ags = aggregates_of(ctx.prog, adt)
    if not ags:
        ctx.bad(o, "no construction of %s found at all" % adt)
        return
    bad = []
    for k, i in ags:
        if k.endswith("as core::clone::Clone>::clone"):
            continue
        if not any(fn_of_closure(k) == a or (a.endswith("*") and fn_of_closure(k).startswith(a[:-1])) for a in allowed):
            bad.append((k, i))
    if bad:
        ctx.bad(o, "%s is also constructed in %s" % (adt.split("::")[-1],
                ", ".join("%s at %s" % (k, i.line()) for k, i in bad)), loc=bad[0][1].line())
    else:
        ctx.ok(o, "%d construction sites, all reviewed" % len(ags),
               sample={"in": sorted({fn_of_closure(k) for k, _ in ags})})
