"""C02 - formation, track and depot capacity limits."""
from .. import optabs, prov
from ..engine import run_controls
from ..rulelib import *
from . import common, flownet

NOTE = ("Static necessary conditions that the three kinds of limits are enforced on every path: closed producer "
        "set of TrainFormation (only add_at_tail grows one, only from the guarded replacement function), the "
        "guards in front of every growth, an abstract interpretation of Option presence for the combination of "
        "type limit and segment limit (all four cases), capacity sources of every start-depot decision, flow "
        "bounds. The comparator direction inside a guard and arithmetic of the counts are not decided.")

VT_MFC = "model::vehicle_types::VehicleType::maximal_formation_count"
ST_MFC = "model::network::nodes::ServiceTrip::maximal_formation_count"
MFC = N("maximal_formation_count_for")
ADD_TAIL = TRAINF + "::add_at_tail"
VRTF = S("vehicle_replacement_in_train_formation")
UTF = S("update_train_formation")
DEPOT = "model::network::depot::Depot"


def capacity_capped_by_total(ctx, key=DEPOT + "::capacity_for", adt=DEPOT, tab="allowed_types", tot="total_capacity"):
    """every value capacity_for returns that comes out of the per-type table is either computed from the total capacity
    as well (min) or returned under a comparison with it"""
    o, fd = ctx.require_fn("R4.%s-caps-by-total" % key.split("::")[-1], "T9", key,
                           "a per-type capacity is capped by the depot's total capacity (min of both)")
    if fd is None:
        return
    recs = optabs.value_paths(fd.body, field_labels={field(adt, tab): "table", field(adt, tot): "total"}, prog=ctx.prog)
    from_table = [r for r in recs if "table" in r["ret_src"]]
    bad = [r for r in from_table if "total" not in r["ret_src"] and "total" not in r["ctl_src"]]
    if bad:
        ctx.bad(o, "on %d of %d paths the returned value comes from the per-type table and is neither computed from nor compared with the "
                "depot's total capacity: a type limit above the total lets the depot spawn more vehicles than it holds" % (len(bad), len(recs)))
    elif from_table:
        ctx.ok(o, "%d of %d paths return a per-type value, all capped by total_capacity" % (len(from_table), len(recs)))
    else:
        ctx.undecided(o, "no returned value is recognised as coming from the per-type table")


def limit_combination(ctx, key=MFC, VT_MFC=VT_MFC, ST_MFC=ST_MFC):
    o, fd = ctx.require_fn("R3.limit-combination", "T1+abs", key,
                           "the applicable formation limit is absent only if both the type limit and the segment limit are absent")
    if fd is None:
        return
    at = fd.ret_slice()["atoms"]
    miss = missing_atoms(at, [call(VT_MFC), call(ST_MFC)])
    if miss:
        ctx.bad(o, "result does not depend on: %s" % fmt_missing(miss))
        return
    tab = optabs.presence_table(fd.body, VT_MFC, ST_MFC)
    want = {("S", "S"): "S", ("S", "N"): "S", ("N", "S"): "S", ("N", "N"): "N"}
    names = {"S": "present", "N": "absent"}
    bad, und = [], []
    for case, w in want.items():
        got = tab[case]
        if got == [w]:
            continue
        wrong = {"S": "N", "N": "S"}[w]
        if wrong in got:
            bad.append("type limit %s, segment limit %s => result can be %s" % (
                names[case[0]], names[case[1]], "None (no limit applied)" if wrong == "N" else "Some (a limit invented)"))
        else:
            und.append("case %s: %s" % (case, got))
    sample = {"%s/%s" % k: v for k, v in tab.items()}
    if not bad and not und:
        # value provenance: both present => derived from both (the smaller one), one present => that one
        ps = optabs.presence_sources(fd.body, VT_MFC, ST_MFC, prog=ctx.prog)
        wantv = {("S", "S"): ("A", "B"), ("S", "N"): ("A",), ("N", "S"): ("B",)}
        lab = {"A": "the type's limit", "B": "the segment's limit"}
        for case, wv in wantv.items():
            got = {v for t, v in ps[case] if t == "S"}
            # an absent limit cannot contribute a value, so only a missing source is a defect
            if got and any(not set(wv) <= set(g) for g in got):
                bad.append("type limit %s, segment limit %s => the value is taken from %s instead of %s" % (
                    names[case[0]], names[case[1]],
                    " / ".join(" and ".join(lab[x] for x in g) or "neither" for g in sorted(got)), " and ".join(lab[x] for x in wv)))
        sample["value_sources"] = {"%s/%s" % k: [list(v) for _, v in vs] for k, vs in ps.items()}
        # both present: the SMALLER one (recognised wrong form: Ord::max on the two limits)
        rs = fd.ret_slice()["atoms"]
        if has_method(rs, "core::cmp::Ord::max") and not has_method(rs, "core::cmp::Ord::min"):
            bad.append("the two limits are combined with max: the larger limit wins and the tighter one is exceeded")
    if bad:
        ctx.bad(o, "; ".join(bad) + " - a limit given only on one side is ignored", sample=sample)
    elif und:
        ctx.undecided(o, "presence of the result not determined: " + "; ".join(und))
    else:
        ctx.ok(o, "presence table: both=>Some, type only=>Some, segment only=>Some, neither=>None", sample=sample)


def growth_guards(ctx):
    # R1: producers
    common.who_may_construct(ctx, "R1.trainformation-producers", TRAINF, [TRAINF + "::*"],
                             "TrainFormation values are built only inside impl TrainFormation")
    common.who_may_call(ctx, "R1.add_at_tail-callers", ADD_TAIL, [VRTF],
                        "the only growth operation (add_at_tail) is called only from the guarded replacement function")
    common.who_may_call(ctx, "R1.replacement-callers", VRTF, [UTF],
                        "vehicle_replacement_in_train_formation is reached only through update_train_formation")
    # R2: the guards
    o, fd = ctx.require_fn("R2.add_at_tail-guards", "T1", VRTF,
                           "every add_at_tail call is control dependent on the formation limit, the track count, the current "
                           "vehicle count and the node kind")
    if fd is not None:
        sites = calls_to(fd, ADD_TAIL)
        ctx.call_sites += len(sites)
        NODE_DISCR = "discr:model::network::nodes::Node"
        req = [call(MFC), call(N("track_count_of_maintenance_slot")), call(TRAINF + "::vehicle_count"),
               (call(ND("is_maintenance")), NODE_DISCR), (call(ND("is_service")), NODE_DISCR)]
        bad = []
        for ins in sites:
            at = fd.slice(seed_blocks=[ins.bb])["atoms"]
            miss = missing_atoms(at, req)
            if miss:
                bad.append((ins, miss))
        if not sites:
            ctx.bad(o, "no add_at_tail call found in the replacement function")
        elif bad:
            ctx.bad(o, "add_at_tail at %s is not guarded by: %s" % (bad[0][0].line(), fmt_missing(bad[0][1])), loc=bad[0][0].line())
        else:
            ctx.ok(o, "%d growth site(s), all guarded" % len(sites))
    # the tests run on every path to the growth: the two kind tests that open them are evaluated before every add_at_tail
    # (directly, or inside a helper that is called on every such path)
    o, fdd = ctx.require_fn("R2.limit-tests-on-every-path-to-growth", "T1", VRTF,
                            "no path reaches add_at_tail without first asking whether the node is a service trip and whether it is a "
                            "maintenance slot (the two questions that open the limit tests)")
    if fdd is not None:
        kinds = {ND("is_service"): "is_service", ND("is_maintenance"): "is_maintenance"}
        problems, seen_sites = [], 0
        for ins in calls_to(fdd, ADD_TAIL):
            seen_sites += 1
            have = set()
            for c in fdd.body.calls():
                if c is ins or not fdd.cfg.instr_dominates(c, ins):
                    continue
                ck = c.callee or ""
                if ck in kinds:
                    have.add(kinds[ck])
                elif ck in ctx.prog.bodies and ck != ADD_TAIL and not ck.startswith("model::"):
                    for h in hosts(ctx, ck, 1):
                        for c2 in h.body.calls():
                            if (c2.callee or "") in kinds:
                                have.add(kinds[c2.callee])
            # ... or the node is matched on directly (`match node { Node::Service(_) => .. }`) before the growth
            for i2 in fdd.body.instrs():
                if i2.kind == "assign" and i2.rv_kind() == "discr" and fdd.cfg.instr_dominates(i2, ins):
                    tk = fdd.body.local_tk(i2.discr_place().local)
                    while tk.get("k") == "ref":
                        tk = tk.get("t", {})
                    if tk.get("k") == "adt" and tk.get("p") == "model::network::nodes::Node":
                        have |= set(kinds.values())
            miss = sorted(set(kinds.values()) - have)
            if miss:
                problems.append((ins, miss))
        if not seen_sites:
            ctx.undecided(o, "no add_at_tail call in the replacement function")
        elif problems:
            ins, miss = problems[0]
            ctx.bad(o, "add_at_tail at %s can be reached without evaluating %s: on that path the %s is never compared with the vehicle count, "
                    "so a formation can grow past it" % (ins.line(), " and ".join(miss),
                                                         "formation limit" if "is_service" in miss else "track count"), loc=ins.line())
        else:
            ctx.ok(o, "%d growth site(s), both kind tests dominate each" % seen_sites)
    # comparator recogniser: growth is refused when count >= limit
    o, fdc = ctx.require_fn("R2.guards-refuse-at-limit", "T12", VRTF,
                            "a vehicle is refused when the formation already has as many vehicles as the limit / the slot as many as tracks (>=)")
    if fdc is not None:
        found = []
        for ins in fdc.body.instrs():
            if ins.kind != "assign" or ins.rv_kind() != "binop" or ins.rv["op"] not in ("Ge", "Gt", "Le", "Lt"):
                continue
            a = fdc.slice_operand_pure(ins, ins.ops[0])["atoms"]
            b = fdc.slice_operand_pure(ins, ins.ops[1])["atoms"]
            cnt = call(TRAINF + "::vehicle_count")
            lim = (call(MFC), call(N("track_count_of_maintenance_slot")))
            if cnt in a and any(x in b for x in lim):
                found.append((ins, ins.rv["op"]))
            elif cnt in b and any(x in a for x in lim):
                found.append((ins, {"Ge": "Le", "Gt": "Lt", "Le": "Ge", "Lt": "Gt"}[ins.rv["op"]]))
        bad = [(i, op) for i, op in found if op == "Gt"]
        und = [(i, op) for i, op in found if op not in ("Ge", "Gt")]
        if len(found) < 2:
            ctx.undecided(o, "expected two count-vs-limit comparisons, recognised %d" % len(found))
        elif bad:
            ctx.bad(o, "`vehicle_count > limit` at %s lets a formation that is exactly full take one more vehicle" % ", ".join(i.line() for i, _ in bad),
                    loc=bad[0][0].line())
        elif und:
            ctx.undecided(o, "comparison form not recognised: %s" % [(i.line(), op) for i, op in und])
        else:
            # polarity: the true edge leads to the Err return
            ok = True
            for i, op in found:
                for b_, (sw, uses) in fdc.switches.items():
                    if i.place.local in fdc.slice(seed_locals=uses, control=False)["locals"] and fdc.cfg.instr_dominates(i, sw):
                        tb = sw.otherwise
                        errs = [x for x in fdc.body.instrs() if x.kind == "assign" and x.place.local == 0 and x.rv_kind() == "agg"
                                and x.rv.get("v") == "Err"]
                        if not any(e.bb in fdc.cfg.reachable_from(tb) for e in errs):
                            ok = False
            ctx.decide(o, ok, "%d comparisons of the form count >= limit => Err" % len(found), "a count >= limit comparison does not lead to the refusal")
    # writes to train_formations of a Schedule only through update_train_formation / update_tours
    sites = common.sites_of(ctx, SCHEDULE)
    allowed = {UTF, S("update_tours")}
    for s in sites:
        c = s.fields.get("train_formations")
        if c is None or c.kind != "changed":
            continue
        o = ctx.ob("R1.%s.formations-written-via-update" % common.site_tag(sites, s), "T8", s.fn,
                   "%s: the formations map is modified only by update_train_formation" % common.short(s.fn))
        o.loc = s.instr.line()
        other = [w for w in c.writes if not (w.kind == "call-mut" and w.info.get("callee") in allowed)]
        ctx.decide(o, not other, "%d write(s), all via update_train_formation/update_tours" % len(c.writes),
                   "formations are also written directly: %s" % ", ".join(
                       "%s at %s" % (w.info.get("callee") or w.kind, w.instr.line() if w.instr else "?") for w in other),
                   loc=other[0].instr.line() if other and other[0].instr else None)


def usage_queries_consult_the_map(ctx, rid="R4"):
    """the counters of a depot are read from the usage map for EVERY depot (the overflow depot included): no result without the lookup"""
    specs = [("number_of_vehicles_of_same_type_spawned_at_custom_usage", ("HashMap::get",)),
             ("number_of_vehicles_spawned_at_custom_usage", ("Iterator::sum", "HashMap::get")),
             ("depot_balance", ("HashMap::get",))]
    for fn, lookups in specs:
        o, fd = ctx.require_fn("%s.%s.every-result-comes-from-the-usage-map" % (rid, fn), "T1", S(fn),
                               "%s answers from the depot usage map for every depot (no result that bypasses the lookup)" % fn)
        if fd is None:
            continue
        rets = [i for i in fd.body.instrs() if i.kind == "return"]
        look = [c for f in [fd] for c in f.body.calls() if any((c.callee or "").endswith(x) or (c.decl or "").endswith(x) for x in lookups)]
        helper = [c for c in fd.body.calls() if (c.callee or "") in ctx.prog.bodies and (c.callee or "").startswith(SCHEDULE + "::")
                  and any((c2.callee or "").endswith("HashMap::get") for h in hosts(ctx, c.callee, 1) for c2 in h.body.calls())]
        cand = look + helper
        # a loop whose body does the lookup: its header stands for the lookup (an empty list of vehicle types has nothing to count)
        for nc, entry in loops_of(fd):
            inside = fd.cfg.reachable_from(entry)
            if any(c.bb in inside and nc.bb in fd.cfg.reachable_from(c.bb) for c in look + helper):
                cand.append(nc)
        if not cand or not rets:
            ctx.undecided(o, "no lookup / return found")
            continue
        dropped = [n for c in look if (c.callee or c.decl or "").endswith("Iterator::sum") for n in narrowing_calls(fd, c, 0)]
        if dropped:
            ctx.bad(o, "the vehicle types summed over at %s go through %s(): the count stops at / skips some types, so a depot is taken to host "
                    "fewer vehicles than it does and its total capacity is exceeded" % (dropped[0].line(), (dropped[0].callee or dropped[0].decl or "").split("::")[-1]),
                    loc=dropped[0].line())
            continue
        ok = all(any(fd.cfg.instr_dominates(c, r) for c in cand) for r in rets)
        ctx.decide(o, ok, "the lookup dominates every return",
                   "%s has a result that is produced without consulting the usage map (a special case in front of the lookup): the "
                   "vehicles of that depot are not counted in the depot loads of the answer, nor against its capacity" % fn,
                   loc=cand[0].line())


def depot_limits(ctx):
    usage_queries_consult_the_map(ctx)
    must_depend(ctx, "R4.can-spawn-sources", "T1", S("can_depot_spawn_vehicle_custom_usage"), "ret",
                [call(N("capacity_of")), call(N("total_capacity_of")),
                 call(S("number_of_vehicles_of_same_type_spawned_at_custom_usage")),
                 call(S("number_of_vehicles_spawned_at_custom_usage")), "param:4"],
                "spawn permission depends on per-type capacity, total capacity, both usage counters and the usage map given")
    for fn in ("can_depot_spawn_vehicle_custom_usage", "number_of_vehicles_of_same_type_spawned_at_custom_usage",
               "number_of_vehicles_spawned_at_custom_usage"):
        o, fdx = ctx.require_fn("R4.%s.uses-given-usage-only" % fn, "T1", S(fn),
                                "%s consults only the depot usage it is given (never the schedule's stored one)" % fn)
        if fdx is not None:
            at = fdx.ret_slice()["atoms"]
            ctx.decide(o, field(SCHEDULE, "depot_usage") not in at,
                       "self.depot_usage is not read", "the result also depends on self.depot_usage: during improve_depots the working "
                       "copy and the stored usage differ, so a capacity test reads stale counts")
    must_depend(ctx, "R4.capacity_for-sources", "T1", DEPOT + "::capacity_for", "ret",
                [field(DEPOT, "allowed_types"), field(DEPOT, "total_capacity"), "param:2"],
                "Depot::capacity_for combines the per-type entry with the total capacity")
    must_depend(ctx, "R4.capacity_of-delegates", "T1", N("capacity_of"), "ret", [call(DEPOT + "::capacity_for"), "param:2", "param:3"],
                "Network::capacity_of asks the depot for the given type")
    must_depend(ctx, "R4.can-spawn-public", "T1", S("can_depot_spawn_vehicle"), "ret",
                [call(S("can_depot_spawn_vehicle_custom_usage")), field(SCHEDULE, "depot_usage")],
                "can_depot_spawn_vehicle decides on the schedule's own depot usage")
    must_depend(ctx, "R5.best-start-depot", "T1", S("find_best_start_depot_for_spawning"), "ret",
                [call(S("can_depot_spawn_vehicle_custom_usage")), call(N("start_depots_sorted_by_distance_to")), "param:4"],
                "the start depot chosen for spawning is one that can_depot_spawn_vehicle_custom_usage admits")
    # overflow fallback is decided on capacity
    o, fd = ctx.require_fn("R5.overflow-fallback-decided-on-capacity", "T1",
                           S("add_suitable_start_and_end_depot_to_path"),
                           "a given start depot is kept only if it has capacity; the overflow depot replaces it otherwise")
    if fd is not None:
        OFL = N("overflow_depot_idxs")
        ofl = calls_to(fd, OFL)
        # the fallback may live in a private helper: its call site is then the site that must be decided on capacity
        for c in fd.body.calls():
            sg = ctx.prog.sigs.get(c.callee or "")
            if sg is not None and not sg.get("pub") and c.callee != OFL and c.callee in ctx.prog.bodies \
                    and call(OFL) in ctx.fd(c.callee).ret_slice()["atoms"]:
                ofl.append(c)
        ok = bool(ofl) and all(call(S("can_depot_spawn_vehicle")) in fd.slice(seed_blocks=[i.bb])["atoms"] for i in ofl)
        dec = fd.decision_slice()["atoms"]
        ctx.decide(o, ok and call(S("can_depot_spawn_vehicle")) in dec and call(S("find_best_start_depot_for_spawning")) in fd.ret_slice()["atoms"],
                   "overflow fallback and result are decided on can_depot_spawn_vehicle; missing depots come from find_best_start_depot_for_spawning",
                   "the overflow fallback / depot choice is not decided on can_depot_spawn_vehicle")
    o, fd = ctx.require_fn("R5.no-return-before-the-capacity-test", "T1", S("add_suitable_start_and_end_depot_to_path"),
                           "no path of add_suitable_start_and_end_depot_to_path returns Ok before the given start depot has been tested for capacity")
    if fd is not None:
        cs = calls_to(fd, S("can_depot_spawn_vehicle")) + calls_to(fd, S("can_depot_spawn_vehicle_custom_usage"))
        oks = [i for i in fd.body.instrs() if i.kind == "assign" and i.place.local == 0 and i.rv_kind() == "agg"
               and i.rv.get("adt") == "core::result::Result" and i.rv.get("v") == "Ok"]
        if not cs or not oks:
            ctx.undecided(o, "capacity test or Ok results not recognised")
        else:
            # the outermost test that decides whether the capacity is asked (is_depot(first node) && ..)
            # the test that directly decides whether the capacity is asked (is_depot(first node) && ..): the immediate control parents
            parents = [b for b in fd.cfg.cdep().get(cs[0].bb, ()) if b in fd.switches]
            gates = parents or [cs[0].bb]
            early = oks
            for g in gates:
                e2 = [i for i in oks if not fd.cfg.dominates(g, i.bb)]
                if len(e2) < len(early):
                    early = e2
            ctx.decide(o, not early, "%d Ok result(s), all after the capacity decision" % len(oks),
                       "the Ok result at %s is returned before the start depot is tested: a path that brings a full start depot keeps it, and the depot "
                       "hosts more vehicles than its capacity" % (early[0].line() if early else "?"), loc=early[0].line() if early else None)
    must_depend(ctx, "R5.spawn-uses-depot-choice", "T1", S("spawn_vehicle_for_path"), "ret",
                [call(S("add_suitable_start_and_end_depot_to_path"))],
                "spawn_vehicle_for_path takes its depots from add_suitable_start_and_end_depot_to_path")
    must_depend(ctx, "R5.add-path-checks-new-start-depot", "T1", S("add_path_to_vehicle_tour"), "dec",
                [call(S("can_depot_spawn_vehicle")), call(ND("is_depot")), call(T("start_depot"))],
                "adding a path that brings its own start depot is decided on that depot's capacity")
    o, fd = ctx.require_fn("R5.add-path-checks-the-new-depot", "T1", S("add_path_to_vehicle_tour"),
                           "the depot whose capacity is tested is the start depot the inserted path brings, not the one the vehicle leaves")
    if fd is not None:
        cs = calls_to(fd, S("can_depot_spawn_vehicle")) + calls_to(fd, S("can_depot_spawn_vehicle_custom_usage"))
        PATH = "solution::path::Path"
        bad, good = [], 0
        for c in cs:
            ch = direct_chain(fd, c.args[1])
            if any(x in (T("start_depot"), S("tour_of"), T("first_node")) for x in ch):
                bad.append(c)
            elif any(x.startswith(PATH + "::") for x in ch):
                good += 1
        if bad:
            ctx.bad(o, "the capacity test at %s is asked for the depot of the vehicle's current tour: a path that moves the vehicle to a full "
                    "depot is accepted as long as the old depot has room" % bad[0].line(), loc=bad[0].line())
        elif cs and good == len(cs):
            ctx.ok(o, "the tested depot is the first node of the inserted path")
        else:
            ctx.undecided(o, "the provenance of the tested depot is not recognised")
    o, fd = ctx.require_fn("R5.improve-depots-uses-capacity", "T1", S("improve_depots_of_tour"),
                           "the start depot installed by improve_depots_of_tour is the capacity-checked choice")
    if fd is not None:
        sites = calls_to(fd, T("replace_start_depot"))
        ok = bool(sites) and all(call(S("find_best_start_depot_for_spawning")) in arg_slice(fd, i, 1, control=False)["atoms"]
                                 for i in sites)
        ctx.decide(o, ok, "replace_start_depot receives find_best_start_depot_for_spawning's result",
                   "replace_start_depot is fed a depot that was not chosen by find_best_start_depot_for_spawning")
    o, fd = ctx.require_fn("R5.improve-depots-always-asks-capacity", "T1", S("improve_depots_of_tour"),
                           "every path through improve_depots_of_tour asks find_best_start_depot_for_spawning before it returns (no shortcut that keeps a depot unchecked)")
    if fd is not None:
        fb = calls_to(fd, S("find_best_start_depot_for_spawning"))
        rets = [i for i in fd.body.instrs() if i.kind == "return"]
        ok = len(fb) >= 1 and all(any(fd.cfg.instr_dominates(c, r) for c in fb) for r in rets)
        ctx.decide(o, ok, "the capacity-aware choice dominates every return",
                   "a return of improve_depots_of_tour is reachable without consulting find_best_start_depot_for_spawning: a start depot whose "
                   "place was released (and possibly taken by an earlier vehicle of the batch) is kept without a capacity test")
    capacity_capped_by_total(ctx)
    o, fd = ctx.require_fn("R5.improve-depots-passes-usage", "T1", S("improve_depots"),
                           "improve_depots hands its working depot usage to the per-tour improvement")
    if fd is not None:
        sites = calls_to(fd, S("improve_depots_of_tour"))
        ok = bool(sites)
        for i in sites:
            a = i.args[3]
            if a.place is None or not (fd.bases(a.place.local) | {a.place.local}) & {
                    l for l in range(len(fd.body.locals)) if fd.body.local_name(l) == "depot_usage"}:
                # fall back: the operand must be a *modified* copy of self.depot_usage
                c = prov.classify_local(fd, list(fd.bases(a.place.local))[0], 1) if a.place is not None and fd.bases(a.place.local) else None
                if c is None or c.kind != "changed":
                    ok = False
        ctx.decide(o, ok, "operand is the working copy of depot_usage", "improve_depots_of_tour does not receive the working depot usage")


def flow_bounds(ctx):
    fd, edges = flownet.edge_sites(ctx)
    o = ctx.ob("R6.edge-sites", "T8", flownet.SFVT, "the four EdgeLabel construction sites of the flow network are found")
    ctx.decide(o, len(edges) >= 4, "%d sites: %s" % (len(edges), [e.role for e in edges]),
               "only %d EdgeLabel sites found in solve_for_vehicle_type" % len(edges))
    flownet.need(ctx, "R6.trip-upper-bound", edges, "trip", "upper_bound", [call(MFC)],
                 "trip edges are capped by the applicable formation limit")
    o, e = flownet.role(ctx, "R6.trip-upper-bound-independent-of-demand", edges, "trip",
                        "the upper bound of a trip edge is the formation limit, not the demand (extra vehicles may ride along)")
    if e is not None:
        at = e.fields["upper_bound"][1]
        ctx.decide(o, call(N("number_of_vehicles_required_to_serve")) not in at, "upper bound does not read the demand",
                   "the trip edge's upper bound derives from the required vehicle count: no vehicle beyond the demand can be repositioned on a "
                   "service trip, so the start solution needs more vehicles than the covering circulation", loc=e.instr.line())
    flownet.need(ctx, "R6.depot-upper-bound", edges, "depot", "upper_bound", [call(flownet.DEPOT_CAP), "param:2"],
                 "depot edges are capped by the depot's capacity for the vehicle type")
    o, e = flownet.role(ctx, "R6.maintenance-bounds", edges, "maintenance",
                        "maintenance edges carry exactly the slots allotted to the type")
    if e is not None:
        ub = e.fields["upper_bound"][1]
        ctx.decide(o, "param:3" in ub, "bounds derive from the allotted slot map (parameter 3)",
                   "maintenance edge bounds do not derive from the allotted slots", loc=e.instr.line())
    must_depend(ctx, "R6.slot-distribution", "T1", "solver::min_cost_flow_solver::MinCostFlowSolver::distribute_maintenance_slots", "ret",
                [call(N("track_count_of_maintenance_slot")), call(N("maintenance_nodes"))],
                "slots are distributed per track of each maintenance node")
    # simplex closures read the labels
    o = ctx.ob("R6.simplex-reads-bounds", "T1", flownet.SFVT, "network_simplex reads lower/upper bounds and costs from the labels")
    if fd is not None:
        sx = [c for c in fd.body.calls() if c.callee and c.callee.endswith("network_simplex")]
        if len(sx) != 1:
            ctx.bad(o, "expected one network_simplex call, found %d" % len(sx))
        else:
            c = sx[0]
            got = []
            for ai in range(1, 5):
                a = c.args[ai]
                tk = fd.body.local_tk(a.place.local) if a.place is not None else {}
                ck = tk.get("p") if tk.get("k") == "closure" else None
                cs = ctx.an.summaries.get(ck)
                got.append(sorted(x for x in (cs.all_atoms() if cs else ()) if x.startswith("field:" + flownet.EDGELABEL)))
            want = [[], [field(flownet.EDGELABEL, "lower_bound")], [field(flownet.EDGELABEL, "upper_bound")],
                    [field(flownet.EDGELABEL, "cost")]]
            ctx.decide(o, got == want, "balance=const, lower<-lower_bound, upper<-upper_bound, cost<-cost",
                       "closure/label mapping is %s, expected %s" % (got, want), loc=c.line())


def rules(ctx):
    from . import order
    order.depot_sides(ctx, "R4")
    growth_guards(ctx)
    limit_combination(ctx)
    depot_limits(ctx)
    flow_bounds(ctx)
    # the limit a departure carries is the one of its own route segment (loader rules shared with C17)
    from .C17 import loader_subset
    loader_subset(ctx, ["create_service_trip.", "create_maintenance.", "create_maintenance-positional", "Depot-new-positional"])


def controls(ctx):
    """the path interpreter on planted forms: the defective ones must be reported, the sound ones must not"""
    ST = "controls::Store"

    def expect(fn, bad_keys, good_keys):
        def spec(c):
            for k in good_keys:
                fn(c, k)
                wrong = [o for o in c.obligations if o.status != "ok"]
                if wrong:
                    raise AssertionError("sound form %s is reported: %s %s" % (k, wrong[0].status, wrong[0].detail[:120]))
            for k in bad_keys:
                fn(c, k)
        return spec
    cap = lambda c, k: capacity_capped_by_total(c, key=ST + "::" + k, adt=ST, tab="table", tot="total")
    lim = lambda c, k: limit_combination(c, key=ST + "::" + k, VT_MFC=ST + "::a", ST_MFC=ST + "::b")
    return run_controls([
        ("value taken from the table without the cap (and three capped forms accepted)", expect(cap, ["cap_missing"], ["cap_min", "cap_if", "cap_map_or"])),
        ("second limit ignored when the first is present (and two sound combinations accepted)", expect(lim, ["first_wins"], ["both_match", "both_map_or"])),
    ])
