"""C05 - returned schedule is cyclically repeatable."""
from ..rulelib import *
from .C16 import REASSIGN, chain

NOTE = ("Static conditions of the end-depot alignment: each vehicle's new end depot is derived from the start depot of "
        "its successor in the schedule's own rotation cycles, for every vehicle unconditionally; replace_end_depot returns "
        "only freshly built tours; nothing rewrites the schedule between the alignment and the output; the JSON reads "
        "vehicles and cycles from the same schedule. The index arithmetic of get_successor_of is guarded (C06) but its "
        "value is NOT decided.")

JS = "solution::json_serialisation"
NEXT = "core::iter::traits::iterator::Iterator::next"


def rules(ctx):
    o, fd = ctx.require_fn("R1.end-depot-from-successor", "T1", REASSIGN,
                           "the end depot installed for a vehicle is the depot where its cycle successor starts")
    if fd is not None:
        sites = calls_to(fd, T("replace_end_depot"))
        need = [call(N("get_end_depot_node")), call(N("get_depot_idx")), call(T("start_depot")), call(S("tour_of")),
                call(TR("get_successor_of")), field(SCHEDULE, "next_period_transitions"), call(S("vehicle_type_of"))]
        if len(sites) != 1:
            ctx.bad(o, "expected one replace_end_depot call, found %d" % len(sites))
        else:
            at = fd.slice_operand_pure(sites[0], sites[0].args[1])["atoms"]
            miss = missing_atoms(at, need)
            ctx.decide(o, not miss, "new end depot <- get_end_depot_node <- get_depot_idx <- start_depot(tour_of(get_successor_of(v)))",
                       "the new end depot does not derive from %s" % fmt_missing(miss), loc=sites[0].line())
            # the successor is asked for the vehicle being processed, in the transition of its own type
            o2 = ctx.ob("R1.successor-of-this-vehicle", "T1", REASSIGN, "get_successor_of is asked for the vehicle whose tour is replaced")
            succ = calls_to(fd, TR("get_successor_of"))
            ok = len(succ) == 1
            if ok:
                v_at = fd.slice_operand_pure(succ[0], succ[0].args[1])["locals"]
                r_at = fd.slice_operand_pure(sites[0], sites[0].args[0])["locals"]
                # both derive from the same loop variable (result of the iterator's next())
                nxt = [c for c in fd.body.calls() if c.decl == NEXT or c.callee == NEXT]
                ok = any(c.dest is not None and c.dest.local in v_at and c.dest.local in r_at for c in nxt)
            ctx.decide(o2, ok, "same loop variable feeds tour_of(v) and get_successor_of(v)",
                       "the successor is not looked up for the vehicle whose end depot is replaced")
            o3 = ctx.ob("R1.every-vehicle-unconditionally", "T1", REASSIGN,
                        "inside the loop over all vehicles the end depot is replaced unconditionally")
            cs = controlling_sources(fd, sites[0])
            other = [(sw, cal) for sw, cal, d in cs if not (d is not None and d.kind == "call" and (d.decl == NEXT or d.callee == NEXT))]
            loop_ok = call(S("vehicles_iter_all")) in fd.slice(seed_blocks=[sites[0].bb])["atoms"]
            ctx.decide(o3, loop_ok and not other, "only the loop over vehicles_iter_all controls the replacement",
                       ("the replacement is skipped under an extra condition at %s" % ", ".join(sw.line() for sw, _ in other)) if other
                       else "the replacement is not inside a loop over vehicles_iter_all",
                       loc=other[0][0].line() if other else sites[0].line())
            o4 = ctx.ob("R1.new-tour-installed", "T1", REASSIGN, "the tour with the new end depot is what is stored for the vehicle")
            ins = [c for c in fd.body.calls() if c.callee and c.callee.endswith("HashMap::insert")]
            ok = any(slice_has_call_def(fd.slice_operand_pure(c, c.args[2]), T("replace_end_depot")) for c in ins if len(c.args) == 3)
            ctx.decide(o4, ok, "tours.insert(vehicle, replace_end_depot(..))", "the result of replace_end_depot is not inserted into the tours")
    o, fd = ctx.require_fn("R1.alignment-keeps-its-cycles", "T1", REASSIGN,
                           "the alignment updates the stored cycles' counters and never rebuilds the cycles it has just aligned the end depots to")
    if fd is not None:
        upd = calls_to(fd, S("update_transitions_and_violation_fast"))
        rec = calls_to(fd, S("recompute_transitions_and_violation_fast")) + calls_to(fd, TR("new_fast"))
        ctx.decide(o, bool(upd) and not rec, "update_transitions_and_violation_fast only",
                   "the cycles are rebuilt from scratch (%s) after the end depots were aligned to the stored cycles: the reported cycles are no longer "
                   "the ones each vehicle's end depot matches" % (rec[0].callee.split("::")[-1] if rec else "no update call"),
                   loc=rec[0].line() if rec else None)
    for fn in ("replace_end_depot", "replace_start_depot"):
        o, fd = ctx.require_fn("R1.%s-always-rebuilds" % fn, "T1", T(fn),
                               "%s returns Ok only with a tour freshly built by new_precomputed (no shortcut returning self)" % fn)
        if fd is None:
            continue
        oks = [i for i in fd.body.instrs() if i.kind == "assign" and i.place.local == 0 and i.rv_kind() == "agg"
               and i.rv.get("adt") == "core::result::Result" and i.rv.get("v") == "Ok"]
        bad = [i for i in oks if direct_call_source(fd, i.ops[0]) != T("new_precomputed")]
        node_arg = None
        ctx.decide(o, bool(oks) and not bad, "%d Ok(..) return(s), all from new_precomputed" % len(oks),
                   "an Ok(..) result at %s is not a freshly built tour" % (bad[0].line() if bad else "?"),
                   loc=bad[0].line() if bad else None)
        o = ctx.ob("R1.%s-installs-argument" % fn, "T1", T(fn), "%s writes its depot argument into the node sequence" % fn)
        np_ = calls_to(fd, T("new_precomputed"))
        ok = len(np_) >= 1 and all("param:2" in fd.slice_operand_pure(c, c.args[0])["atoms"] for c in np_)
        ctx.decide(o, ok, "nodes operand derives from the depot parameter", "the new node sequence does not contain the depot argument")
    # R2: nothing after the alignment (shared with C16.flow-12) in both pipelines
    for key, tag in (("server::solve_instance", "R2.server"), ("internal::run", "R2.internal")):
        before = len(ctx.obligations)
        chain(ctx, key, tag)
        keep = [o for o in ctx.obligations[before:] if o.id.endswith(("flow-07-reassign-end-depots", "flow-07b-alignment-unconditional", "flow-08-final-info", "flow-09-final-evaluate",
                                                                       "flow-10-output", "flow-11-return", "flow-12-nothing-after-alignment"))]
        ctx.obligations[before:] = keep
    # R3: every rotation cycle is reported, in rotation order (shared with C03.R2)
    from . import C03
    before = len(ctx.obligations)
    C03.completeness(ctx)
    ctx.obligations[before:] = [o for o in ctx.obligations[before:] if "rotation-cycle" in o.id]
    for o in ctx.obligations[before:]:
        o.id = o.id.replace("C05/R2.", "C05/R3.")
    C03.cycle_order_preserved(ctx, "R3")
    # R3: JSON reads vehicles and cycles from the same schedule
    o, fd = ctx.require_fn("R3.fleet-json-same-schedule", "T1", JS + "::fleet_to_json",
                           "vehicle_cycles and vehicles of a fleet are read from the same schedule, for the same vehicle type")
    if fd is not None:
        a = calls_to(fd, S("next_day_transition_of"))
        b = calls_to(fd, S("vehicles_iter"))
        ok = len(a) == 1 and len(b) == 1
        if ok:
            ok = all("param:1" in fd.slice_operand_pure(c, c.args[0])["atoms"] and "param:2" in fd.slice_operand_pure(c, c.args[1])["atoms"] for c in a + b)
        ctx.decide(o, ok, "both read (schedule, vehicle_type) parameters", "fleet_to_json does not read cycles and vehicles from the same (schedule, type)")
    aggregate_fields(ctx, "R3", JS + "::fleet_to_json", JS + "::JsonFleet", {
        "vehicle_cycles": [call(S("next_day_transition_of")), call(TR("cycles_iter")), call(TCYCLE + "::iter")],
        "vehicles": [call(S("vehicles_iter")), call(JS + "::vehicle_to_json")],
    })
    aggregate_fields(ctx, "R3", JS + "::vehicle_to_json", JS + "::JsonVehicle", {
        "start_depot": [call(T("first_node")), call(N("get_depot_idx")), call(N("get_depot"))],
        "end_depot": [call(T("last_node")), call(N("get_depot_idx")), call(N("get_depot"))],
    })
    successor_rules(ctx)
    from . import formulas as _fm
    _fm.cluster_loops(ctx, "R4")      # the cycles partition the type's vehicles: the clustering loses none


def successor_rules(ctx, rid="R4"):
    """the successor of a vehicle is read from its own cycle (shared with C16)"""
    from . import formulas
    before = len(ctx.obligations)
    formulas.transition_formulas(ctx, rid)
    ctx.obligations[before:] = [o for o in ctx.obligations[before:] if "get_successor_of" in o.id]
    before = len(ctx.obligations)
    formulas.three_opt_details(ctx, rid)       # the optimised cycle is a permutation of the old one (no vehicle lost or doubled)
    ctx.obligations[before:] = [o_ for o_ in ctx.obligations[before:] if "new-cycle" in o_.id or "index" in o_.id]
    # R4: update_vehicle keeps the membership of the cycle
    o, fd = ctx.require_fn("%s.update-keeps-cycle-members" % rid, "T1", TR("update_vehicle"),
                           "update_vehicle rebuilds the cycle with the same vehicle vector")
    if fd is not None:
        c = calls_to(fd, TCYCLE + "::new")
        ok = len(c) == 1 and call(TCYCLE + "::get_vec") in fd.slice_operand_pure(c[0], c[0].args[0])["atoms"]
        ctx.decide(o, ok, "TransitionCycle::new(old_cycle.get_vec().clone(), ..)", "the rebuilt cycle does not take the old cycle's vehicles")
    must_depend(ctx, "%s.successor-definition" % rid, "T1", TR("get_successor_of"), "ret",
                [field(TRANSITION, "cycle_lookup"), field(TRANSITION, "cycles"), "param:2", call(TCYCLE + "::get_vec")],
                "get_successor_of reads the vehicle's own cycle through the lookup")
