"""The one-line formulas the model rests on, as expression shapes (rss/shape.py)."""
from .. import shape
from ..rulelib import *

ANY = ("any",)


def shape_rule(ctx, oid, key, pattern, text, consequence=""):
    o, fd = ctx.require_fn(oid, "T12", key, text)
    if fd is None:
        return
    verdict, ins, shown = "undecided", None, ""
    for f in hosts(ctx, key, depth=1):
        v, i, s = shape.decide(f, pattern)
        if v == "ok":
            verdict, ins, shown = v, i, s
            break
        if v == "bad" and verdict != "bad":
            verdict, ins, shown = v, i, s
    if verdict == "ok":
        ctx.ok(o, shown)
    elif verdict == "bad":
        ctx.bad(o, "the documented ingredients are combined as %s at %s%s" % (shown, ins.line(), (": " + consequence) if consequence else ""), loc=ins.line())
    else:
        ctx.undecided(o, "no expression with the documented ingredients was found")


def side(i):
    return ("side", i)


def same_place_test(ctx, rid):
    """which branch of the turnaround rule is taken: decided on end_location(n1) vs start_location(n2), travel time only when they differ"""
    from .. import optabs
    key = N("minimal_duration_between_nodes_as_ref")
    o, fd = ctx.require_fn("%s.turnaround.same-place-test" % rid, "T12+abs", key,
                           "a dead-head trip (travel time + dead-head shunting) is used iff end_location(n1) differs from start_location(n2)")
    if fd is None:
        return
    ops = (("call", "Node::end_location", [side(2)]), ("call", "Node::start_location", [side(3)]))
    found = None
    for ins in fd.body.instrs():
        if ins.kind != "call":
            continue
        op = shape.CALL_OPS.get(ins.decl or "")
        if op not in ("Eq", "Ne"):
            continue
        e = shape.normalise(shape.expr_of_instr(fd, ins))
        if shape.match(("bin", op, ops[0], ops[1]), e):
            found = (ins, op, True)
            break
        have = shape.calls_of(e)
        if any(h.endswith("_location") for h in have):
            found = found or (ins, op, False)
    if found is None:
        ctx.undecided(o, "the comparison of the two locations is not recognised")
        return
    ins, op, operands_ok = found
    if not operands_ok:
        ctx.bad(o, "the locations compared at %s are not end_location(n1) and start_location(n2): %s" % (
            ins.line(), shape.show(shape.expr_of_instr(fd, ins))), loc=ins.line())
        return
    res = {}
    for equal in (True, False):
        v = "T" if (equal == (op == "Eq")) else "F"
        it = optabs.OptInterp(fd.body, {ins.id: v})
        it.run()
        calls = set()
        for r in it.records:
            calls |= set(r["calls"])
        res[equal] = calls
    tt = lambda cs: any(c.endswith("Locations::travel_time") for c in cs)
    if tt(res[True]) or not tt(res[False]):
        ctx.bad(o, "with equal locations travel_time is %s, with different locations it is %s: the two branches of the turnaround rule are "
                "exchanged" % ("asked" if tt(res[True]) else "not asked", "asked" if tt(res[False]) else "not asked"), loc=ins.line())
    else:
        ctx.ok(o, "travel time and dead-head shunting exactly when the locations differ")


def forbid_rule(ctx, rid):
    """between two activities: with forbidDeadHeadTrips and different locations can_reach is false whatever the times are; in
    every other case the answer is left to the time test"""
    from .. import optabs
    key = N("can_reach")
    CFG = "model::config::Config"
    o, fd = ctx.require_fn("%s.can_reach.forbid-dead-heads" % rid, "T12+abs", key,
                           "between activities: forbid flag and different locations => false; otherwise the time test decides")
    if fd is None:
        return
    node = ctx.prog.adts.get(NODE)
    names = [v["name"] for v in node["variants"]] if node else []
    if "Service" not in names:
        ctx.undecided(o, "Node::Service not found")
        return
    sv = names.index("Service")
    ops = (("call", "Node::end_location", [side(2)]), ("call", "Node::start_location", [side(3)]))
    cmp_ins = None
    for ins in fd.body.instrs():
        if ins.kind == "call" and shape.CALL_OPS.get(ins.decl or "") in ("Eq", "Ne"):
            e = shape.normalise(shape.expr_of_instr(fd, ins))
            opn = shape.CALL_OPS[ins.decl]
            if shape.match(("bin", opn, ops[0], ops[1]), e):
                cmp_ins = (ins, opn)
            elif cmp_ins is None and any(h.endswith("_location") for h in shape.calls_of(e)):
                ctx.bad(o, "the locations compared at %s are not end_location(n1) and start_location(n2): %s" % (ins.line(), shape.show(e)), loc=ins.line())
                return
    if cmp_ins is None:
        ctx.undecided(o, "the comparison of the two locations is not recognised")
        return
    ins, opn = cmp_ins
    sides = {2: [], 3: []}
    for l in range(fd.body.argc + 1, len(fd.body.locals)):
        ty = fd.body.local_ty(l)
        if ty.startswith("&") and ty.rstrip().endswith("Node"):
            at = fd.slice(seed_locals=[l], control=False)["atoms"]
            if ("param:2" in at) != ("param:3" in at):
                sides[2 if "param:2" in at else 3].append(l)
    forced = {l: sv for l in sides[2] + sides[3]}
    vi = {n: i for i, n in enumerate(names)}
    preds = {ND("is_start_depot"): {vi.get("StartDepot")}, ND("is_end_depot"): {vi.get("EndDepot")},
             ND("is_depot"): {vi.get("StartDepot"), vi.get("EndDepot")}}
    flag = [a for a in ("field:%s.forbid_dead_head_trip" % CFG,)]
    bad = []
    for forbid in "TF":
        for differ in (True, False):
            it = optabs.OptInterp(fd.body, {ins.id: "T" if (differ == (opn == "Ne")) else "F"})
            it.forced = dict(forced)
            it.enum_preds = preds
            it.field_values = {flag[0]: forbid}
            it.run()
            got = {r["ret"] if isinstance(r["ret"], str) else "?" for r in it.records}
            case = "forbid flag %s, locations %s" % ("set" if forbid == "T" else "not set", "differ" if differ else "equal")
            if forbid == "T" and differ:
                if got != {"F"}:
                    bad.append("%s => %s (must be false)" % (case, "/".join(sorted(got))))
            elif got and got <= {"T", "F"}:
                bad.append("%s => always %s, the times are never looked at" % (case, "/".join(sorted(got))))
    if bad:
        ctx.bad(o, "; ".join(bad[:3]), loc=ins.line())
    else:
        ctx.ok(o, "4 cases between two service trips as documented")


def network_formulas(ctx, rid):
    forbid_rule(ctx, rid)
    end_t = lambda s: ("call", "Node::end_time", [side(s)])
    start_t = lambda s: ("call", "Node::start_time", [side(s)])
    shape_rule(ctx, "%s.can_reach.formula" % rid, N("can_reach"),
               ("bin", "Le", ("bin", "Add", end_t(2), ("call", "minimal_duration_between_nodes_as_ref", [ANY, side(2), side(3)])), start_t(3)),
               "can_reach: end_time(n1) + minimal_duration(n1, n2) <= start_time(n2)",
               "connections are accepted that a vehicle cannot make (or refused although it can)")
    shape_rule(ctx, "%s.idle_time.formula" % rid, N("idle_time_between"),
               ("bin", "Sub", start_t(3), ("bin", "Add", end_t(2), ("call", "dead_head_time_between", [ANY, side(2), side(3)]))),
               "idle time = start_time(n2) - (end_time(n1) + dead_head_time(n1, n2))",
               "idle costs of every tour are wrong")
    shape_rule(ctx, "%s.turnaround.formula" % rid, N("minimal_duration_between_nodes_as_ref"),
               ("bin", "Add", ("call", "Locations::travel_time", [ANY, ("call", "Node::end_location", [side(2)]), ("call", "Node::start_location", [side(3)])]),
                ("call", "shunting_duration_between_activities_if_dead_head_trip", [ANY, side(2), side(3)])),
               "turnaround with a dead-head trip = travel_time(end_location(n1), start_location(n2)) + dead-head shunting")
    same_place_test(ctx, rid)
    key = N("shunting_duration_between_activities_if_dead_head_trip")
    o, fd = ctx.require_fn("%s.dead-head-shunting.sum" % rid, "T12", key, "dead-head shunting = shunting before the trip + shunting after it")
    if fd is not None:
        e = shape.normalise(shape.expr(fd, shape.Operand({"k": "copy", "pl": {"l": 0, "p": []}})))
        if e[0] == "bin" and e[1] == "Add":
            ctx.ok(o, shape.show(e)[:120])
        elif e[0] == "bin" and e[1] in ("Sub", "Max", "Min", "Mul"):
            ctx.bad(o, "the two shunting times are combined as %s" % shape.show(e)[:120])
        else:
            ctx.undecided(o, "returned expression not recognised: %s" % shape.show(e)[:80])
    shape_rule(ctx, "%s.duration.formula" % rid, ND("duration"),
               ("bin", "Sub", ("call", "Node::end_time", [side(1)]), ("call", "Node::start_time", [side(1)])),
               "duration of an activity = end_time - start_time", "useful duration and all duration-based costs are wrong")


def param_never_tested(fd, param):
    """no comparison, discriminant read or boolean-valued call of the body looks at parameter `param` itself (directly, through copies
    and references), so no test of it can exist however it is written; values computed from it by other calls (look-ups) do not count"""
    def is_param(op_or_local):
        if isinstance(op_or_local, int):
            l = op_or_local
            seen = 0
            while seen < 8:
                seen += 1
                if l == param:
                    return True
                ds = [d for d in fd.defs.get(l, ()) if d.kind != "param"]
                if len(ds) != 1 or ds[0].kind != "assign" or ds[0].instr is None or ds[0].instr.rv_kind() not in ("use", "ref") \
                        or not ds[0].instr.ops or ds[0].instr.ops[0].place is None:
                    return False
                l = ds[0].instr.ops[0].place.local
            return False
        if op_or_local.place is None:
            return False
        return is_param(op_or_local.place.local)
    for ins in fd.body.instrs():
        if ins.kind == "call":
            ret_ty = fd.body.local_ty(ins.dest.local) if ins.dest is not None and ins.dest.is_local else ""
            if (ret_ty == "bool" or (ins.decl or "").startswith("core::cmp::")) and any(is_param(a) for a in ins.args):
                return False
        elif ins.kind == "assign" and ins.rv_kind() == "discr":
            if is_param(ins.discr_place().local):
                return False
        elif ins.kind == "assign" and ins.rv_kind() == "binop" and ins.rv["op"] in ("Eq", "Ne", "Lt", "Le", "Gt", "Ge"):
            if any(is_param(op) for op in ins.ops):
                return False
    return True


def truth_rule(ctx, oid, key, text, sources, expect, consequence="", absent=None):
    """small truth tables: `sources` = [(name, predicate(instr) -> 'pos' | 'neg' | None)] identifies boolean-valued calls in the body
    ('neg' for the negated form, e.g. ne for "equal"); `expect(case dict) -> 'T' | 'F' | None` is the documented answer"""
    from .. import optabs
    import itertools
    o, fd = ctx.require_fn(oid, "T12+abs", key, text)
    if fd is None:
        return
    found = []
    for name, pred in sources:
        hit = [(ins, pred(ins)) for ins in fd.body.calls() if pred(ins)]
        if not hit and absent and name in absent and absent[name](fd):
            # the quantity is provably not looked at: the answer cannot depend on it (a free variable of the table)
            found.append((name, None, None))
            continue
        if len(hit) != 1:
            ctx.undecided(o, "the test `%s` is not found exactly once (%d)" % (name, len(hit)))
            return
        found.append((name, hit[0][0], hit[0][1]))
    bad = []
    for combo in itertools.product("TF", repeat=len(found)):
        case = {n: v == "T" for (n, _, _), v in zip(found, combo)}
        want = expect(case)
        if want is None:
            continue
        src = {}
        for (n, ins, pol), v in zip(found, combo):
            if ins is None:
                continue
            if isinstance(pol, dict):           # explicit abstract values for yes / no (e.g. an Option-valued call)
                src[ins.id] = pol[v == "T"]
            else:
                src[ins.id] = v if pol == "pos" else {"T": "F", "F": "T"}[v]
        it = optabs.OptInterp(fd.body, src)
        it.run()
        got = {r["ret"] if isinstance(r["ret"], str) else (r["ret"][1] if isinstance(r["ret"], tuple) and r["ret"][0] == "V" else "?")
               for r in it.records}
        definite_wrong = {g for g in got if g not in ("?", want)}
        if got and definite_wrong:
            bad.append("%s => %s (documented: %s)" % (", ".join("%s: %s" % (k, "yes" if v else "no") for k, v in case.items()),
                                                      "/".join(sorted(got)), want))
    if bad:
        ctx.bad(o, "; ".join(bad[:3]) + ((": " + consequence) if consequence else ""))
    else:
        ctx.ok(o, "all cases as documented")


def network_predicates(ctx, rid):
    def named(suffix, pol="pos"):
        return lambda ins: pol if (ins.callee or "").endswith(suffix) or (ins.decl or "").endswith(suffix) else None

    def eq_or_ne(ins):
        d = ins.decl or ""
        if d == "core::cmp::PartialEq::eq":
            return "pos"
        if d == "core::cmp::PartialEq::ne":
            return "neg"
        return None
    truth_rule(ctx, "%s.maintenance_considered" % rid, N("maintenance_considered"),
               "maintenance is considered iff the instance has maintenance slots",
               [("no maintenance slots", named("::is_empty"))], lambda c: "F" if c["no maintenance slots"] else "T",
               "the maintenance stages of the pipeline run exactly when they should not")
    LOCS = "model::locations::Locations"

    def nowhere_test(param):
        def pred(ins):
            if (ins.decl or "") != "core::cmp::PartialEq::eq" and (ins.decl or "") != "core::cmp::PartialEq::ne":
                return None
            fd_ = ctx.an.fd(cur[0])
            at = fd_.slice_operand_pure(ins, ins.args[0])["atoms"] | fd_.slice_operand_pure(ins, ins.args[1])["atoms"]
            if ("param:%d" % param) in at and ("param:%d" % (5 - param)) not in at:
                return "pos" if ins.decl.endswith("::eq") else "neg"
            return None
        return pred
    cur = [None]
    for fn, inf in (("distance", "Infinity"), ("travel_time", "Infinity")):
        cur[0] = LOCS + "::" + fn
        truth_rule(ctx, "%s.%s.nowhere-is-infinitely-far" % (rid, fn), LOCS + "::" + fn,
                   "%s between two locations without a dead-head entry is Infinity iff one of them is Nowhere (the overflow depot)" % fn,
                   [("no entry", lambda ins: {True: "N", False: "S"} if (ins.callee or "").endswith("Locations::get_dead_head_trip") else None),
                    ("a is Nowhere", nowhere_test(2)), ("b is Nowhere", nowhere_test(3))],
                   lambda c: None if not c["no entry"] else (inf if (c["a is Nowhere"] or c["b is Nowhere"]) else "ZERO"),
                   "the overflow depot becomes free to reach: every vehicle is sent there",
                   absent={"a is Nowhere": lambda f: param_never_tested(f, 2), "b is Nowhere": lambda f: param_never_tested(f, 3)})
    truth_rule(ctx, "%s.compatible_with_vehicle_type" % rid, N("compatible_with_vehicle_type"),
               "a node is compatible with a type iff it is not a service trip or its route's type equals it",
               [("service trip", named("Node::is_service")), ("same type", eq_or_ne)],
               lambda c: "T" if (not c["service trip"] or c["same type"]) else "F",
               "vehicles are given trips of another type (or refused their own)")


def overflow_capacity_formula(ctx, rid):
    """overflow capacity = (number of service trips) x (LARGEST formation count over the types) + (allotted maintenance tracks)"""
    key = N("new")
    o, fd = ctx.require_fn("%s.overflow-capacity.formula" % rid, "T12", key,
                           "overflow depot capacity = service trips x max formation count over all types + maintenance tracks")
    if fd is None:
        return
    DN = "model::network::depot::Depot::new"
    verdicts = []
    for f in hosts(ctx, key, depth=1):
        for c in f.body.calls():
            if c.callee != DN or len(c.args) < 4:
                continue
            e = shape.normalise(shape.expr(f, c.args[3]))
            calls = shape.calls_of(e)
            maxf = any(x.endswith("Iterator::max") or x.endswith("Ord::max") for x in calls)
            minf = any(x.endswith("Iterator::min") or x.endswith("Ord::min") for x in calls)
            top_add = e[0] == "bin" and e[1] == "Add"
            has_mul = "op:Mul" in calls
            # the factor "number of service trips" counts trips (a sum of the per-type list lengths), not the per-type map's entries
            def _mul_operands(x, acc):
                if x[0] == "bin":
                    if x[1] == "Mul":
                        acc.append(x)
                    for y in x[2:]:
                        if isinstance(y, tuple):
                            _mul_operands(y, acc)
                elif x[0] == "call":
                    for y in x[2]:
                        _mul_operands(y, acc)
                return acc
            muls = _mul_operands(e, [])
            map_len = any(any(cc.endswith("HashMap::len") for cc in shape.calls_of(m)) for m in muls)
            if map_len and has_mul:
                verdicts.append(("bad", c, "the number of service trips is taken as the number of ENTRIES of the per-type map (= vehicle types): %s" % shape.show(e)[:160]))
            elif e[0] == "bin" and e[1] == "Sub" and has_mul:
                verdicts.append(("bad", c, "the maintenance tracks are subtracted: %s" % shape.show(e)))
            elif minf and not maxf and has_mul:
                verdicts.append(("bad", c, "the SMALLEST formation count over the types is used: %s" % shape.show(e)))
            elif top_add and has_mul and maxf:
                verdicts.append(("ok", c, shape.show(e)))
            else:
                verdicts.append(("undecided", c, shape.show(e)))
    if any(v[0] == "bad" for v in verdicts):
        v = [v for v in verdicts if v[0] == "bad"][0]
        ctx.bad(o, "%s - the overflow depot cannot host the vehicles the flow bounds can force, the circulation is infeasible and unwrap panics" % v[2], loc=v[1].line())
    elif any(v[0] == "ok" for v in verdicts):
        ctx.ok(o, [v for v in verdicts if v[0] == "ok"][0][2])
    else:
        ctx.undecided(o, "capacity expression not recognised: %s" % (verdicts[0][2] if verdicts else "no Depot::new call"))
    # the overflow depot is among the depots the network is built from
    o2 = ctx.ob("%s.overflow-depot-registered" % rid, "T1", key, "the overflow depot is pushed into the depot list the nodes are created from")
    ok = False
    for f in hosts(ctx, key, depth=1):
        for c in f.body.calls():
            if (c.callee or "").endswith("Vec::push") and len(c.args) == 2 and slice_has_call_def(f.slice_operand_pure(c, c.args[1]), DN):
                ok = True
    ctx.decide(o2, ok, "depots.push(overflow depot)", "the overflow depot is built but never added to the depots: no start/end nodes exist for it and "
               "every fallback to the overflow depot panics")


def flatten(e, sign=1, out=None):
    """signed terms of a +/- tree"""
    out = [] if out is None else out
    if e[0] == "bin" and e[1] == "Add":
        flatten(e[2], sign, out)
        flatten(e[3], sign, out)
    elif e[0] == "bin" and e[1] == "Sub":
        flatten(e[2], sign, out)
        flatten(e[3], -sign, out)
    else:
        out.append((sign, e))
    return out


def _between_args(t):
    """the arguments of the `.._between(..)` call inside a term"""
    if t[0] == "call":
        if "between" in t[1].split("::")[-1]:
            return list(t[2])
        for a in t[2]:
            r = _between_args(a)
            if r:
                return r
    elif t[0] == "bin":
        return _between_args(t[2]) or _between_args(t[3])
    elif t[0] == "phi":
        for a in t[1]:
            r = _between_args(a)
            if r:
                return r
    return []


def tour_delta_signs(ctx, rid):
    """the incrementally maintained figures of a tour: new = old - (what leaves) + (what comes).  Decided per term of the
    +/- tree that feeds new_precomputed: terms about the removed segment / the old depot are subtracted, terms about the new
    nodes / the new depot / the closed gap are added, and the base is the figure of self."""
    from .. import prov
    from .common import TOUR_PRE
    cm = prov.ctor_map(ctx.prog, TOUR_PRE, TOUR)
    if cm is None:
        return
    fields = ("useful_duration", "service_distance", "dead_head_distance", "costs")
    for name in ("replace_start_depot", "replace_end_depot", "remove", "insert_path"):
        key = T(name)
        fd = ctx.fd(key)
        if fd is None:
            continue
        sites = [c for c in fd.body.calls() if c.callee == TOUR_PRE]
        if len(sites) != 1:
            continue
        site = sites[0]
        for f in fields:
            if name.startswith("replace_") and f in ("useful_duration", "service_distance"):
                continue
            o = ctx.ob("%s.%s.%s.signs" % (rid, name, f), "T12", key,
                       "%s: new %s = self.%s - (what leaves) + (what comes)" % (name, f, f))
            o.loc = site.line()
            e = shape.normalise(shape.expr(fd, site.args[cm[f] - 1]))
            alts = e[1] if e[0] == "phi" else [e]
            bad, und, ok_n = [], [], 0
            for alt in alts:
                terms = flatten(alt)
                base = [t for s, t in terms if t[0] == "field" and t[2] == f]
                if not base:
                    continue        # a from-scratch recomputation (the Infinity guard) or an Option wrapper
                if [s for s, t in terms if t[0] == "field" and t[2] == f] != [1]:
                    bad.append("self.%s does not enter once with a plus sign" % f)
                    continue
                for s, t in terms:
                    if t[0] == "field" and t[2] == f:
                        continue
                    calls = shape.calls_of(t)
                    ps = shape.params_of(t)
                    want = None
                    if any(c.endswith("_of_segment") for c in calls):
                        want = -1
                    elif any(c.endswith("_of_new_nodes") for c in calls):
                        want = 1
                    elif any(c.endswith("Iterator::sum") for c in calls):
                        # a sum over positions of self (a range) leaves, a sum over the new nodes comes
                        if any(c.startswith("agg:") and "Range" in c for c in calls):
                            want = -1           # positions start..end of self
                        elif name == "remove":
                            want = -1           # remove adds no nodes: every sum is over (a slice of) the removed positions
                        elif 2 in ps or any(c.endswith("Path::consume") or c.endswith("Path::iter") for c in calls):
                            want = 1            # the nodes of the inserted path
                        else:
                            want = -1 if name != "insert_path" else None
                    elif any("between" in c.split("::")[-1] for c in calls):
                        if name.startswith("replace_"):
                            # new depot = the parameter; old depot = read from self (first_node / last_node); anything else is not classified
                            bargs = _between_args(t)
                            if any(a == ("param", 2) for a in bargs):
                                want = 1
                            elif any(a[0] == "call" and (a[1].endswith("Tour::first_node") or a[1].endswith("Tour::last_node")) for a in bargs):
                                want = -1
                        elif name == "remove":
                            want = 1            # the dead-head trip that closes the gap
                    elif t[0] == "const" or (t[0] == "phi" and all(a[0] == "const" for a in t[1])):
                        continue
                    if want is None:
                        und.append(shape.show(t))
                    elif want != s:
                        bad.append("%s%s although it describes what %s" % ("+" if s > 0 else "-", shape.show(t), "leaves" if want < 0 else "comes"))
                    else:
                        ok_n += 1
            if bad:
                ctx.bad(o, "; ".join(bad[:2]) + ": the cached %s of the new tour is wrong from here on" % f, loc=site.line())
            elif ok_n and not und:
                ctx.ok(o, "%d signed term(s) as documented" % ok_n)
            else:
                ctx.undecided(o, "terms not recognised: %s" % ", ".join(und[:3]) if und else "the expression is not a +/- tree over self.%s" % f)


def _roots_with(fd, wanted_call_suffixes, types=("u64", "i64", "u32")):
    """(instr, expr) of the +/- expressions of the body that contain a call to one of the wanted callees"""
    out = []
    for ins in fd.body.instrs():
        if ins.kind == "assign" and ins.rv_kind() == "binop" and shape.norm_op(ins.rv["op"]) in ("Add", "Sub") \
                and any(ins.rv.get("aty", "").startswith(t) for t in types):
            e = shape.normalise(shape.expr_of_instr(fd, ins))
            if any(any(c.endswith(w) for w in wanted_call_suffixes) for c in shape.calls_of(e)):
                out.append((ins, e))
    return out


def schedule_cost_signs(ctx, rid):
    """the running total of a schedule's costs: the costs of the tour that is installed are added, those of the tour it replaces
    (the one looked up in the tour map) are subtracted"""
    LOOKUPS = ("HashMap::get", "HashMap::remove", "Schedule::tour_of", "Index::index")
    for key in sorted(ctx.prog.bodies):
        if not key.startswith(SCHEDULE + "::") or ctx.prog.bodies[key].is_closure or getattr(ctx.prog.bodies[key], "test_unit", False):
            continue
        if "verify_consistency" in key:
            continue
        fd = ctx.an.fd(key)
        roots = _roots_with(fd, ("Tour::costs",), types=("u64",))
        if not roots:
            continue
        o = ctx.ob("%s.%s.cost-signs" % (rid, key.split("::")[-1]), "T12", key,
                   "%s: costs of the installed tour are added, costs of the replaced tour are subtracted" % key.split("::")[-1])
        o.loc = roots[0][0].line()
        bad, n = [], 0
        for ins, e in roots:
            for s, t in flatten(e):
                cs = shape.calls_of(t)
                if not any(c.endswith("Tour::costs") for c in cs) or t[0] != "call" or not t[1].endswith("Tour::costs"):
                    continue
                arg = t[2][0] if t[2] else ("?",)
                # the replaced tour is the one *looked up*; a tour computed FROM the looked-up one (insert_path(get(..), ..)) is new
                old = arg[0] == "call" and any(arg[1].endswith(l) for l in LOOKUPS)
                n += 1
                if old and s > 0:
                    bad.append((ins, "the costs of the tour looked up in the map (the one being replaced) are ADDED: %s" % shape.show(e)))
                elif not old and s < 0:
                    bad.append((ins, "the costs of the new tour are SUBTRACTED: %s" % shape.show(e)))
        if bad:
            ctx.bad(o, bad[0][1] + " - the cached total costs drift away from the sum over the tours", loc=bad[0][0].line())
        elif n:
            ctx.ok(o, "%d signed tour-cost term(s)" % n)
        else:
            ctx.undecided(o, "no signed Tour::costs term recognised")


def transition_total_signs(ctx, rid):
    """totals of a transition after a cycle changed: the new cycle's counter (clamped at 0 for the violation) is added, the old
    cycle's is subtracted"""
    MC = TCYCLE + "::maintenance_counter"
    for key in sorted(ctx.prog.bodies):
        if not key.startswith(TRANSITION + "::") or ctx.prog.bodies[key].is_closure or getattr(ctx.prog.bodies[key], "test_unit", False):
            continue
        if "verify_consistency" in key or "one_cluster" in key or "new_fast" in key:
            continue
        fd = ctx.an.fd(key)
        sites = [c for c in fd.body.calls() if c.callee == TRANSITION + "::new" or False]
        roots = _roots_with(fd, ("TransitionCycle::maintenance_counter",), types=("i64",))
        # only the expressions over the totals of self
        roots = [(i, e) for i, e in roots if any(t[0] == "field" and t[2] in ("total_maintenance_violation", "total_maintenance_counter")
                                                 for _, t in flatten(e))]
        if not roots:
            continue
        o = ctx.ob("%s.%s.total-signs" % (rid, key.split("::")[-1]), "T12", key,
                   "%s: total = self.total + (new cycle) - (old cycle)" % key.split("::")[-1])
        o.loc = roots[0][0].line()
        bad, n = [], 0
        for ins, e in roots:
            terms = flatten(e)
            fld = [t[2] for _, t in terms if t[0] == "field"]
            for s, t in terms:
                if t[0] == "field":
                    if s < 0:
                        bad.append((ins, "self.%s is subtracted" % t[2]))
                    continue
                inner = t
                clamped = False
                if inner[0] == "bin" and inner[1] in ("Max", "Min"):
                    clamped = inner[1]
                    inner = inner[2] if inner[2][0] != "const" else inner[3]
                elif inner[0] == "phi" and len(inner[1]) == 2 and any(a[0] == "const" and str(a[1]).startswith("0") for a in inner[1]):
                    clamped = "Max"         # the positive part written out: if c > 0 { c } else { 0 }
                    inner = [a for a in inner[1] if a[0] != "const"][0]
                if clamped == "Min":
                    bad.append((ins, "a cycle's counter is clamped with min(.., 0) instead of max(.., 0): %s" % shape.show(e)))
                    continue
                if "total_maintenance_violation" in fld and not clamped and inner[0] != "const":
                    bad.append((ins, "a counter enters the total violation unclamped: %s" % shape.show(e)))
                    continue
                if "total_maintenance_counter" in fld and clamped:
                    continue    # reported by the plain-sum rule
                is_old = inner[0] == "call" and inner[1].endswith("TransitionCycle::maintenance_counter") \
                    and inner[2] and inner[2][0][0] != "param"  # the counter of a cycle that is looked up; a cycle handed in is the new one
                n += 1
                if is_old and s > 0:
                    bad.append((ins, "the OLD cycle's counter is added: %s" % shape.show(e)))
                elif not is_old and s < 0 and inner[0] != "const":
                    bad.append((ins, "the NEW cycle's counter is subtracted: %s" % shape.show(e)))
        if bad:
            ctx.bad(o, bad[0][1] + " - the cached totals (and the maintenance violation of the objective) are wrong", loc=bad[0][0].line())
        elif n:
            ctx.ok(o, "%d signed counter term(s)" % n)
        else:
            ctx.undecided(o, "no signed counter term recognised")


def remove_segment_guard(ctx, rid):
    truth_rule(ctx, "%s.remove_segment.only-real-vehicles" % rid, S("remove_segment"),
               "remove_segment refuses a vehicle id that is not a real vehicle",
               [("is a vehicle", lambda ins: "pos" if ins.callee == S("is_vehicle") else None)],
               lambda c: None if c["is a vehicle"] else "E", "segments are removed from dummy tours through the vehicle path (and real vehicles are refused)")


def schedule_predicates(ctx, rid):
    remove_segment_guard(ctx, rid)
    key = S("check_receiver_type_compatibility")
    fd0 = ctx.an.fd(key) if key in ctx.prog.bodies else None

    def vt_of(param):
        def pred(ins):
            if ins.callee != S("vehicle_type_of") or fd0 is None:
                return None
            at = fd0.slice_operand_pure(ins, ins.args[1])["atoms"]
            return {True: "O", False: "E"} if ("param:%d" % param) in at and ("param:%d" % (5 - param)) not in at else None
        return pred

    def differ(ins):
        d = ins.decl or ""
        return "pos" if d == "core::cmp::PartialEq::ne" else ("neg" if d == "core::cmp::PartialEq::eq" else None)

    def scan(ins):
        return "pos" if (ins.decl or "") == "core::iter::traits::iterator::Iterator::any" else None

    def expect(c):
        if not c["receiver is a vehicle"]:
            return "T"
        if c["provider is a vehicle"] and not c["types differ"]:
            return "T"
        return "F" if c["a node is incompatible"] else "T"
    truth_rule(ctx, "%s.receiver-type-check.table" % rid, key,
               "moving a segment to a real receiver is refused iff provider and receiver types differ (or the provider is a dummy) and a node of the "
               "segment is incompatible with the receiver's type",
               [("receiver is a vehicle", vt_of(3)), ("provider is a vehicle", vt_of(2)), ("types differ", differ), ("a node is incompatible", scan)],
               expect, "vehicles receive trips of another vehicle type")


def transition_formulas(ctx, rid):
    """who is a vehicle's neighbour in its rotation cycle, and which of the neighbour's depots counts"""
    CONST1 = ("const", "1")
    shape_rule(ctx, "%s.get_successor_of.formula" % rid, TR("get_successor_of"),
               ("bin", "Rem", ("bin", "Add", ANY, CONST1), ANY),
               "the successor of the vehicle at position p of its cycle is the vehicle at (p + 1) mod len",
               "end depots are aligned to the wrong vehicle's start depot")
    # ... and it wraps: the index of the returned vehicle is computed with a remainder, or has a branch that yields 0
    o, fd = ctx.require_fn("%s.get_successor_of.wraps-around" % rid, "T12", TR("get_successor_of"),
                           "the successor of the last vehicle of a cycle is its first vehicle (the index wraps around)")
    if fd is not None:
        idx = [c for c in fd.body.calls() if (c.decl or c.callee or "").endswith("Index::index") and len(c.args) > 1]
        if len(idx) != 1:
            ctx.undecided(o, "%d indexing operations" % len(idx))
        else:
            e = shape.normalise(shape.expr(fd, idx[0].args[1]))
            cs = shape.calls_of(e)
            sl = fd.slice_operand_pure(idx[0], idx[0].args[1])
            zero = any(d.instr is not None and d.instr.kind == "assign" and d.instr.rv_kind() == "use" and d.instr.ops
                       and d.instr.ops[0].place is None and d.instr.ops[0].const_val() == 0 for d in sl["defs"])
            wrong_mod = None
            if e[0] == "bin" and e[1] == "Rem" and len(e) > 3:
                m = e[3]
                # the modulus is the length of the vehicle's own cycle (an element of self.cycles), not the number of cycles
                if m[0] == "call" and m[1].endswith("::len") and m[2] and m[2][0][0] == "field":
                    wrong_mod = shape.show(m)
            if wrong_mod:
                ctx.bad(o, "the successor index wraps at %s, the number of cycles, instead of the length of the vehicle's own cycle: the last "
                        "vehicle of a cycle gets a wrong successor (or the index runs out of the cycle)" % wrong_mod, loc=idx[0].line())
            elif "op:Rem" in cs or zero:
                ctx.ok(o, "index = %s" % shape.show(e)[:120])
            elif "op:Add" in cs and e[0] != "?":
                ctx.bad(o, "the index of the successor is %s: it never wraps to 0, so the last vehicle of a cycle has no (or a wrong) successor and its "
                        "end depot is aligned to the wrong start depot" % shape.show(e)[:160], loc=idx[0].line())
            else:
                ctx.undecided(o, "index form not recognised: %s" % shape.show(e)[:120])
    shape_rule(ctx, "%s.counter-with-neighbours.formula" % rid, TR("maintenance_counter_of_tour_plus_dead_head_trips_before_and_after"),
               ("bin", "Add",
                ("bin", "Add", ("call", "Tour::maintenance_counter", [side(2)]),
                 ("call", "in_meter", [("call", "dead_head_distance_between", [ANY, ("param", 3), ("call", "Tour::start_depot", [side(2)])])])),
                ("call", "in_meter", [("call", "dead_head_distance_between", [ANY, ("call", "Tour::end_depot", [side(2)]), ("param", 4)])])),
               "a tour's share of its cycle = its own counter + transfer(predecessor's end depot -> its start depot) + transfer(its end depot -> successor's start depot)",
               "the counters of all rotation cycles are wrong")
    key = TR("end_depot_of_predecessor_and_start_depot_of_successor")
    o, fd = ctx.require_fn("%s.cycle-neighbours" % rid, "T12", key,
                           "predecessor = position - 1 (wrapping to the last vehicle), successor = position + 1 (wrapping to the first); "
                           "the predecessor contributes its END depot, the successor its START depot")
    if fd is None:
        return
    tup = [i for i in fd.body.instrs() if i.kind == "assign" and i.place.local == 0 and i.rv_kind() == "agg" and i.rv.get("ak") == "tuple" and len(i.ops) == 2]
    if len(tup) != 1:
        ctx.undecided(o, "the returned pair is not built in one place")
        return
    e0 = shape.normalise(shape.expr(fd, tup[0].ops[0]))
    e1 = shape.normalise(shape.expr(fd, tup[0].ops[1]))

    def facts(e):
        cs = shape.calls_of(e)
        return {"end_depot": any(c.endswith("Tour::end_depot") for c in cs), "start_depot": any(c.endswith("Tour::start_depot") for c in cs),
                "last": any(c.endswith("::last") for c in cs), "first": any(c.endswith("::first") for c in cs),
                "sub": "op:Sub" in cs, "add": "op:Add" in cs}
    f0, f1 = facts(e0), facts(e1)
    bad = []
    if f0["start_depot"] and not f0["end_depot"]:
        bad.append("the predecessor contributes its start depot")
    if f1["end_depot"] and not f1["start_depot"]:
        bad.append("the successor contributes its end depot")
    if f0["first"] and not f0["last"]:
        bad.append("the predecessor of the first vehicle is looked up with first()")
    if f1["last"] and not f1["first"]:
        bad.append("the successor of the last vehicle is looked up with last()")
    if f0["add"] and not f0["sub"]:
        bad.append("the predecessor is taken at position + 1")
    if f1["sub"] and not f1["add"]:
        # `len - 1` in the wrap test is a subtraction too: only a get(.. - 1) counts
        pass
    # index arithmetic of the two get() calls
    for e, want, who in ((e0, "Sub", "predecessor"), (e1, "Add", "successor")):
        for sub in _find_calls(e, "::get"):
            if len(sub[2]) >= 2 and sub[2][1][0] == "bin" and sub[2][1][1] in ("Add", "Sub") and any(a[0] == "const" for a in sub[2][1][2:]):
                if sub[2][1][1] != want:
                    bad.append("the %s is taken at position %s 1" % (who, "+" if sub[2][1][1] == "Add" else "-"))
            elif len(sub[2]) >= 2 and sub[2][1][0] != "bin" and (sub[1].endswith("TransitionCycle::get") or "slice" in sub[1] or "[T]" in sub[1]):
                bad.append("the %s is taken at the vehicle's own position (no %s 1)" % (who, "-" if want == "Sub" else "+"))
    # modular form: predecessor at (p + len - 1) % len, successor at (p + 1) % len
    modular = {}
    for e, who in ((e0, "predecessor"), (e1, "successor")):
        for sub in _find_calls(e, "::get"):
            if len(sub[2]) >= 2 and sub[2][1][0] == "bin" and sub[2][1][1] == "Rem":
                inner = sub[2][1][2]
                ops = shape.calls_of(inner)
                one = "1_usize" in shape.show(inner) or "const 1" in shape.show(inner)
                minus = "op:Sub" in ops and one
                plus = "op:Add" in ops and one and "op:Sub" not in ops
                if who == "predecessor":
                    if plus:
                        bad.append("the predecessor is taken at (position + 1) mod len")
                    elif minus:
                        modular[who] = True
                else:
                    if minus:
                        bad.append("the successor is taken at (position - 1) mod len")
                    elif plus:
                        modular[who] = True
    # the wrap tests: position == 0 for the predecessor, position == len - 1 for the successor
    for ins in fd.body.instrs():
        if ins.kind == "assign" and ins.rv_kind() == "binop" and ins.rv["op"] in ("Eq", "Ne") and ins.rv.get("aty", "").startswith("usize"):
            if any(op.place is None for op in ins.ops):
                continue        # a comparison with a constant (also the compiler's `len == 0` test in front of a remainder)
            e = shape.normalise(shape.expr_of_instr(fd, ins))
            for side_e in (e[2], e[3]):
                if any(c.endswith("::len") for c in shape.calls_of(side_e)):
                    if not (side_e[0] == "bin" and side_e[1] == "Sub" and any(x[0] == "const" and str(x[1]).startswith("1") for x in side_e[2:])):
                        bad.append("the last position is tested as `position %s %s` instead of len - 1" % ("==" if ins.rv["op"] == "Eq" else "!=", shape.show(side_e)[:40]))
    if bad:
        ctx.bad(o, "; ".join(sorted(set(bad))) + ": the depot transfers of the rotation cycle are computed between the wrong vehicles", loc=tup[0].line())
    elif f0["end_depot"] and f1["start_depot"] and (f0["last"] or modular.get("predecessor")) and (f1["first"] or modular.get("successor")):
        ctx.ok(o, "(%s, %s)" % (shape.show(e0)[:80], shape.show(e1)[:80]))
    else:
        ctx.undecided(o, "neighbour look-ups not in a recognised form")


def _find_calls(e, suffix, acc=None):
    acc = [] if acc is None else acc
    if e[0] == "call":
        if e[1].endswith(suffix):
            acc.append(e)
        for a in e[2]:
            _find_calls(a, suffix, acc)
    elif e[0] == "bin":
        _find_calls(e[2], suffix, acc)
        _find_calls(e[3], suffix, acc)
    elif e[0] == "phi":
        for a in e[1]:
            _find_calls(a, suffix, acc)
    elif e[0] == "not":
        _find_calls(e[1], suffix, acc)
    return acc


def three_opt_details(ctx, rid):
    """3-opt on a rotation cycle at positions i < j < k (parameters 2, 3, 4): each of the six transfers runs from the END depot of the
    vehicle at a position to the START depot of the vehicle at (position + 1) mod n; the new cycle is
    [..=i] ++ [j+1..=k] ++ [i+1..=j] ++ [k+1..]"""
    key = TCYCLE + "::three_opt"
    o, fd = ctx.require_fn("%s.three-opt.transfer-operands" % rid, "T12", key,
                           "every transfer of the 3-opt delta is end_depot(cycle[p]) -> start_depot(cycle[(q + 1) mod n])")
    if fd is None:
        return
    P = (("param", 2), ("param", 3), ("param", 4))

    def pos_ok(e):
        return e in P

    def succ_ok(e):
        return e[0] == "bin" and e[1] == "Rem" and e[2][0] == "bin" and e[2][1] == "Add" and \
            ((e[2][2] in P and e[2][3][0] == "const" and str(e[2][3][1]).startswith("1")) or
             (e[2][3] in P and e[2][2][0] == "const" and str(e[2][2][1]).startswith("1")))
    bad, n, und = [], 0, 0
    for f in hosts(ctx, key, depth=1):
        for c in f.body.calls():
            if not (c.callee or "").endswith("dead_head_distance_between") or len(c.args) < 3:
                continue
            n += 1
            e1 = shape.normalise(shape.expr(f, c.args[1]))
            e2 = shape.normalise(shape.expr(f, c.args[2]))
            i1 = _find_calls(e1, "Index>::index")
            i2 = _find_calls(e2, "Index>::index")
            c1, c2 = shape.calls_of(e1), shape.calls_of(e2)
            if any(x.endswith("Tour::start_depot") for x in c1) and not any(x.endswith("Tour::end_depot") for x in c1):
                bad.append((c, "the transfer starts at a START depot: %s" % shape.show(e1)[:90]))
            elif any(x.endswith("Tour::end_depot") for x in c2) and not any(x.endswith("Tour::start_depot") for x in c2):
                bad.append((c, "the transfer ends at an END depot: %s" % shape.show(e2)[:90]))
            elif len(i1) == 1 and len(i2) == 1 and len(i1[0][2]) == 2 and len(i2[0][2]) == 2:
                a, b = i1[0][2][1], i2[0][2][1]
                if not pos_ok(a):
                    bad.append((c, "the end depot is not taken at one of the positions i, j, k: %s" % shape.show(a)))
                elif not succ_ok(b):
                    bad.append((c, "the start depot is not taken at (position + 1) mod n: %s" % shape.show(b)))
            else:
                und += 1
    if bad:
        ctx.bad(o, "%s at %s: the delta of the cycle counter is computed for transfers that do not exist in the cycle" % (bad[0][1], bad[0][0].line()),
                loc=bad[0][0].line())
    elif n >= 6 and not und:
        ctx.ok(o, "%d transfers, all end_depot(cycle[p]) -> start_depot(cycle[(q+1) mod n])" % n)
    else:
        ctx.undecided(o, "%d transfers found, %d not in a recognised form" % (n, und))
    o2 = ctx.ob("%s.three-opt.new-cycle" % rid, "T12", key, "the new cycle is [..=i] ++ [j+1..=k] ++ [i+1..=j] ++ [k+1..]")
    ext = [c for c in fd.body.calls() if (c.callee or "").endswith("Extend>::extend") or (c.callee or "").endswith("Vec::extend_from_slice")]
    want = [("RangeTo", [(2, 1)]), ("Range", [(3, 1), (4, 1)]), ("Range", [(2, 1), (3, 1)]), ("RangeFrom", [(4, 1)])]
    if 1 <= len(ext) < 4:
        kinds = []
        for c in ext:
            e = shape.normalise(shape.expr(fd, c.args[1]))
            kinds += [x[1].split("::")[-1] for x in _find_calls(e, "") if x[1].startswith("agg:core::ops::range::")]
        if len(kinds) == len(ext) and set(kinds) <= {"RangeTo", "Range", "RangeFrom"}:
            ctx.bad(o2, "the new cycle is assembled from %d slices instead of four: the vehicles of the missing part drop out of the rotation cycle" % len(ext),
                    loc=ext[0].line())
            return
    if len(ext) != 4:
        ctx.undecided(o2, "the new cycle is not assembled by four extend calls (%d)" % len(ext))
        return
    ext.sort(key=lambda c: (c.bb, c.idx))
    order = sorted(ext, key=lambda c: int((c.line().split(":")[-1]) or 0))
    probs = []
    for c, (kind, bounds) in zip(order, want):
        e = shape.normalise(shape.expr(fd, c.args[1]))
        rng = [x for x in _find_calls(e, "") if x[1].startswith("agg:core::ops::range::")]
        if len(rng) != 1:
            ctx.undecided(o2, "slice at %s not recognised: %s" % (c.line(), shape.show(e)[:80]))
            return
        r = rng[0]
        got_kind = r[1].split("::")[-1]
        got = []
        for b in r[2]:
            if b[0] == "bin" and b[1] in ("Add", "Sub") and b[2][0] == "param" and b[3][0] == "const":
                got.append((b[2][1], int(str(b[3][1]).split("_")[0]) * (1 if b[1] == "Add" else -1)))
            elif b[0] == "param":
                got.append((b[1], 0))
            else:
                got.append(None)
        if got_kind != kind or got != bounds:
            nm = {2: "i", 3: "j", 4: "k"}
            probs.append("%s: %s(%s) instead of %s(%s)" % (c.line(), got_kind, ", ".join("?" if g is None else "%s%+d" % (nm.get(g[0], "p%d" % g[0]), g[1]) for g in got),
                                                          kind, ", ".join("%s%+d" % (nm[b[0]], b[1]) for b in bounds)))
    ctx.decide(o2, not probs, "four slices as documented", "; ".join(probs[:2]) + ": vehicles are lost from or duplicated in the rotation cycle")


def three_opt_indices(ctx, rid):
    """the 3-opt neighbourhood enumerates i < j < k strictly: each inner range starts one after the index of the enclosing range"""
    TSPN = "<solver::transition_cycle_tsp::transition_cycle_neighborhood::TransitionCycleNeighborhood as rapid_solve::heuristics::common::Neighborhood>::neighbors_of"
    keys = [k for k in ctx.prog.bodies if k.startswith("<solver::transition_cycle_tsp::transition_cycle_neighborhood::TransitionCycleNeighborhood as ")
            and "::neighbors_of" in k]
    o = ctx.ob("%s.three-opt.index-order" % rid, "T12", TSPN, "3-opt candidates use positions i < j < k (inner ranges start at the outer index + 1)")
    if not keys:
        ctx.anchor_gone(o, TSPN) if hasattr(ctx, "anchor_gone") else ctx.undecided(o, "neighbourhood not found")
        return
    bad, n = [], 0
    for k in keys:
        b = ctx.prog.bodies[k]
        if not b.is_closure:
            continue
        fd = ctx.an.fd(k)
        for ins in fd.body.instrs():
            if ins.kind == "assign" and ins.rv_kind() == "agg" and (ins.rv.get("adt") or "").endswith("ops::range::Range") and ins.ops:
                e = shape.normalise(shape.expr(fd, ins.ops[0]))
                if ("param", 2) in [e] or (e[0] == "bin" and ("param", 2) in (e[2], e[3])):
                    n += 1
                    if not (e[0] == "bin" and e[1] == "Add" and any(x[0] == "const" and str(x[1]).startswith("1") for x in (e[2], e[3]))):
                        bad.append((ins, shape.show(e)))
    if bad:
        ctx.bad(o, "an inner index range starts at %s at %s: two of the three positions can coincide (or run backwards) and three_opt builds a "
                "cycle with vehicles duplicated or lost" % (bad[0][1], bad[0][0].line()), loc=bad[0][0].line())
    elif n >= 2:
        ctx.ok(o, "%d inner ranges start at index + 1" % n)
    else:
        ctx.undecided(o, "inner ranges not recognised")


def flow_network_details(ctx, rid):
    """direction, bounds and costs of the arcs between the split nodes (left = tuple component 0, right = component 1)"""
    from . import flownet
    fd, edges = flownet.edge_sites(ctx)
    if fd is None:
        return
    SFVT = flownet.SFVT
    adds = [c for c in fd.body.calls() if (c.callee or "").endswith("::add_edge")]

    def add_edge_of(e):
        # the add_edge call whose result is inserted together with this label: the closest one before it
        before = [c for c in adds if fd.cfg.instr_dominates(c, e.instr)]
        return max(before, key=lambda c: (int(c.line().split(":")[-1] or 0))) if before else None
    want = {"connection": (1, 0, "a connection leaves the RIGHT copy of the predecessor and enters the LEFT copy of the node"),
            "depot": (0, 1, "a depot's own arc runs from its left to its right copy")}
    for role, (wa, wb, text) in want.items():
        es = [e for e in edges if e.role == role]
        o = ctx.ob("%s.%s-arc-direction" % (rid, role), "T12", SFVT, text)
        if len(es) != 1 or add_edge_of(es[0]) is None:
            ctx.undecided(o, "arc construction not recognised")
            continue
        c = add_edge_of(es[0])
        o.loc = c.line()
        a = shape.expr(fd, c.args[1])
        b = shape.expr(fd, c.args[2])
        comp = lambda x: int(x[1].split(".")[1]) if x[0] == "call" and x[1].startswith("tuple.") else None
        ca, cb = comp(a), comp(b)
        if ca is None or cb is None:
            ctx.undecided(o, "end points are not components of the (left, right) pairs")
        elif (ca, cb) == (wa, wb):
            ctx.ok(o, "component %d -> component %d" % (ca, cb))
        else:
            ctx.bad(o, "the arc at %s runs from component %d to component %d: flow cannot pass through the split nodes in the direction of time, "
                    "the circulation is infeasible or describes other tours" % (c.line(), ca, cb), loc=c.line())
    # decoding: the tour that is continued is looked up under the PREDECESSOR (the tail of the in-arc), not under the node itself
    o = ctx.ob("%s.decoding-continues-the-predecessors-tour" % rid, "T12", SFVT,
               "a unit of flow over an in-arc continues a tour that ended at the arc's tail")
    gm = [c for f in [fd] for c in f.body.calls() if (c.callee or "").endswith("HashMap::get_mut") and any("Vec<usize>" in t for t in c.targs)]
    if len(gm) != 1:
        ctx.undecided(o, "look-up of the tour to continue not recognised")
    else:
        ke = shape.expr(fd, gm[0].args[1])
        cs = shape.calls_of(ke)
        from_inarcs = any(x.endswith("::flatten") or x.endswith("::filter_map") or "inedges" in x for x in cs)
        o.loc = gm[0].line()
        if from_inarcs:
            ctx.ok(o, "key <- the in-arcs of the node")
        elif ke[0] != "?" and cs:
            ctx.bad(o, "the tour to continue is looked up under %s, which does not come from the in-arcs: tours are continued at the wrong "
                    "activity (or `pred not found` panics)" % shape.show(ke)[:120], loc=gm[0].line())
        else:
            ctx.undecided(o, "key provenance not recognised")
    # ... and the tour is TAKEN from the list of tours that end at the tail (each unit of flow continues its own tour)
    o = ctx.ob("%s.decoding-takes-the-tour-it-continues" % rid, "T12", SFVT,
               "a unit of flow removes the tour it continues from the list of tours ending at the arc's tail (pop), so the next unit continues another one")
    lists = [c for c in fd.body.calls() if (c.callee or "").split("::")[-1] in ("get", "get_mut") and "HashMap" in (c.callee or "")
             and any("Vec<usize>" in t for t in c.targs)]
    taken, peeked = [], []
    for c in fd.body.calls():
        nm = (c.callee or c.decl or "").split("::")[-1]
        if nm not in ("pop", "remove", "swap_remove", "last", "first", "index", "get", "last_mut", "first_mut") or not c.args or c in lists:
            continue
        chi = direct_chain(fd, c.args[0], want_instrs=True)
        if not any(x in lists for x in chi):
            continue
        (taken if nm in ("pop", "remove", "swap_remove") else peeked).append(c)
    if taken:
        ctx.ok(o, "%s at %s" % ((taken[0].callee or "").split("::")[-1], taken[0].line()))
    elif peeked:
        ctx.bad(o, "the tour to continue is only looked at (%s at %s), not taken out of the list: all units of flow that leave an activity are "
                "appended to the same tour, the other tours that ended there are never continued" % (
                    (peeked[0].callee or peeked[0].decl or "").split("::")[-1], peeked[0].line()), loc=peeked[0].line())
    else:
        ctx.undecided(o, "how the continued tour is obtained is not recognised")
    # the arc of an activity runs from the node stored as component 0 of its pair to the one stored as component 1
    for role in ("trip", "maintenance"):
        es = [e for e in edges if e.role == role]
        o = ctx.ob("%s.%s-arc-direction" % (rid, role), "T12", SFVT, "the arc of a %s runs from its left copy (pair component 0) to its right copy (component 1)" % role)
        if len(es) != 1 or add_edge_of(es[0]) is None:
            ctx.undecided(o, "arc construction not recognised")
            continue
        c = add_edge_of(es[0])
        o.loc = c.line()
        a = root_local(fd, c.args[1].place.local) if c.args[1].place is not None else None
        b = root_local(fd, c.args[2].place.local) if c.args[2].place is not None else None
        pairs = []
        for ins in fd.body.instrs():
            if ins.kind == "assign" and ins.rv_kind() == "agg" and ins.rv.get("ak") == "tuple" and len(ins.ops) == 2 \
                    and all(op.place is not None for op in ins.ops):
                x, y = root_local(fd, ins.ops[0].place.local), root_local(fd, ins.ops[1].place.local)
                if {x, y} == {a, b}:
                    pairs.append((x, y))
        if not pairs or a is None or b is None:
            ctx.undecided(o, "the (left, right) pair of the arc's end points is not recognised")
        elif all(p == (a, b) for p in pairs):
            ctx.ok(o, "add_edge(left, right) with (left, right) stored as the pair")
        else:
            ctx.bad(o, "add_edge at %s runs from the node stored as component 1 to the one stored as component 0: connections enter at component 0 "
                    "and leave at component 1, so no flow can pass this %s" % (c.line(), role), loc=c.line())
    # decoding skips the arcs without flow (and only those)
    o = ctx.ob("%s.decoding-skips-empty-arcs-only" % rid, "T12+abs", SFVT, "an in-arc is skipped by the decoder iff its flow is zero")
    from .. import optabs
    verdict = None
    for k2 in ctx.prog.family(SFVT):
        f2 = ctx.fd(k2)
        if not f2.body.is_closure or "Option<" not in f2.body.local_ty(0):
            continue
        cmps = [i for i in f2.body.instrs() if i.kind == "assign" and i.rv_kind() == "binop" and i.rv["op"] in ("Eq", "Ne")
                and any(op.const is not None and str(op.const.get("val")) == "0" for op in i.ops)]
        reps = [c for c in f2.body.calls() if (c.callee or "").endswith("::repeat") or (c.callee or "").endswith("::take")]
        if len(cmps) != 1 or not reps:
            continue
        ins = cmps[0]
        res = {}
        for zero in (True, False):
            v = "T" if (zero == (ins.rv["op"] == "Eq")) else "F"
            it = optabs.OptInterp(f2.body, {ins.id: v})
            it.run()
            res[zero] = {r["ret"] if isinstance(r["ret"], str) else "?" for r in it.records}
        if res[True] == {"N"} and "N" not in res[False]:
            verdict = ("ok", ins)
        elif "S" in res[True] or res[False] == {"N"}:
            verdict = ("bad", ins)
        else:
            verdict = verdict or ("und", ins)
    if verdict is None or verdict[0] == "und":
        ctx.undecided(o, "the filter of the in-arcs is not recognised")
    elif verdict[0] == "ok":
        ctx.ok(o, "flow == 0 => skipped, otherwise decoded")
    else:
        ctx.bad(o, "the in-arc filter at %s keeps the arcs WITHOUT flow and skips those with flow: no tour is decoded from the circulation" % verdict[1].line(),
                loc=verdict[1].line())
    # the decoder also walks the END depots: flow into an end depot tells where the tour ends (from_tours would pick the nearest one)
    o = ctx.ob("%s.decoding-visits-end-depots" % rid, "T12", SFVT, "the decoding loop handles end-depot nodes (the end depot of a tour is the one the flow chose)")
    ined = [c for c in fd.body.calls() if "inedges" in (c.callee or "")]
    if not ined:
        ctx.undecided(o, "decoding loop not recognised")
    else:
        # the body of the decoding loop: the innermost loop that contains the in-arc walk, up to that walk
        reach_ined = set()
        best = None
        for nc, entry in loops_of(fd):
            seen_, wl_ = set(), [entry]
            while wl_:
                b_ = wl_.pop()
                if b_ in seen_ or b_ == nc.bb:
                    continue
                seen_.add(b_)
                wl_.extend(fd.cfg.succ[b_])
            if ined[0].bb in seen_ and (best is None or len(seen_) < len(best)):
                best = seen_
        if best is not None:
            reach_ined = {b for b in best if ined[0].bb in fd.cfg.reachable_from(b) and not fd.cfg.dominates(ined[0].bb, b)}
        hits = 0
        kinds = set()
        for ins in fd.body.instrs():
            if ins.bb not in reach_ined or ins.kind not in ("assign", "call"):
                continue
            for op in list(ins.ops) + list(ins.args):
                if op.place is not None:
                    for pp in op.place.proj:
                        if pp["k"] == "downcast" and pp.get("v") in ("EndDepot", "StartDepot", "Service", "Maintenance"):
                            kinds.add(pp["v"])
        # only the match in front of the in-arc walk counts: it must mention EndDepot if it mentions node kinds at all
        if "EndDepot" in kinds:
            ctx.ok(o, "node kinds handled before the in-arc walk: %s" % sorted(kinds))
        elif kinds or True:
            # kinds may be matched without binding a payload: fall back to the construction of TripNode::Depot from an end depot's index
            dep = [i for i in fd.body.instrs() if i.kind == "assign" and i.rv_kind() == "agg" and (i.rv.get("adt") or "").endswith("TripNode")
                   and i.rv.get("v") == "Depot" and i.bb in reach_ined]
            if dep:
                ctx.ok(o, "TripNode::Depot is built inside the decoding loop")
            else:
                ctx.bad(o, "the decoding loop never maps an end-depot node to its flow node: the flow into end depots is ignored and every tour is "
                        "closed with the nearest end depot instead of the one the circulation chose (depot balance and costs differ from the optimum)",
                        loc=ined[0].line())
    con = [e for e in edges if e.role == "connection"]
    if len(con) == 1:
        e = con[0]
        o = ctx.ob("%s.connection-bound-is-a-max" % rid, "T12", SFVT,
                   "a connection can carry the LARGER of the formation count and the largest allotted track count")
        ub = shape.normalise(shape.expr(fd, e.fields["upper_bound"][0]))
        cs = shape.calls_of(ub)
        has_min = "op:Min" in cs or any(x.endswith("Iterator::min") for x in cs)
        has_max = "op:Max" in cs and any(x.endswith("Iterator::max") for x in cs)
        if has_min:
            ctx.bad(o, "the bound is %s: with a min the forced flow of a maintenance slot with more tracks than the formation count does not fit and "
                    "network_simplex(..).unwrap() panics" % shape.show(ub)[:160], loc=e.instr.line())
        elif has_max:
            ctx.ok(o, shape.show(ub)[:160])
        else:
            ctx.undecided(o, "bound not recognised: %s" % shape.show(ub)[:120])
        o = ctx.ob("%s.connection-cost-is-a-sum" % rid, "T12", SFVT, "connection cost = dead-head cost + idle cost")
        ce = shape.normalise(shape.expr(fd, e.fields["cost"][0]))
        if ce[0] == "bin" and ce[1] == "Add":
            ctx.ok(o, shape.show(ce)[:160])
        elif ce[0] == "bin" and ce[1] == "Sub":
            ctx.bad(o, "the idle cost is subtracted: %s" % shape.show(ce)[:160], loc=e.instr.line())
        else:
            ctx.undecided(o, "cost expression not recognised: %s" % shape.show(ce)[:100])


def loop_rule(ctx, oid, key, text, source_atom, sink_suffixes, consequence="", which="innermost"):
    """every iteration of the loop over `source_atom` passes a call to each of the sinks with an argument taken from the element"""
    o, fd = ctx.require_fn(oid, "T10", key, text)
    if fd is None:
        return
    loops = []
    marker = source_atom[5:] if source_atom.startswith("call:") else source_atom
    cands = []
    for nc, entry in loops_of(fd):
        # the body: blocks reachable from the entry without passing the header again
        seen, wl = set(), [entry]
        while wl:
            b = wl.pop()
            if b in seen or b == nc.bb:
                continue
            seen.add(b)
            wl.extend(fd.cfg.succ[b])
        at = fd.slice_operand_pure(nc, nc.args[0])["atoms"]
        if source_atom in at or any(i.kind == "call" and i.callee == marker for b in seen for i in fd.body.blocks[b]):
            cands.append((len(seen), nc, entry))
    if cands:
        cands.sort(key=lambda x: x[0])
        loops = [(cands[0][1], cands[0][2])] if which == "innermost" else [(c[1], c[2]) for c in cands]
    if not loops:
        ctx.undecided(o, "the loop is not recognised")
        return
    bad = []
    for nc, entry in loops:
        lv = nc.dest.local if nc.dest is not None else None
        for suf in sink_suffixes:
            alts = suf if isinstance(suf, (tuple, list)) else (suf,)

            def is_sink(i, alts=alts):
                if not any((i.callee or "").endswith(x) for x in alts):
                    return False
                return any(lv in fd.slice_operand_pure(i, a)["locals"] for a in i.args[1:] if a.place is not None) if lv is not None else True
            ok, sinks = loop_always_passes(fd, nc, entry, is_sink)
            if not ok:
                bad.append((nc, "/".join(x.split("::")[-1] for x in alts), len(sinks)))
    if bad:
        nc, suf, n = bad[0]
        ctx.bad(o, "an iteration of the loop at %s can finish without %s of its element (%d such call(s) in the body)%s" % (
            nc.line(), suf, n, (": " + consequence) if consequence else ""), loc=nc.line())
    else:
        ctx.ok(o, "%d loop(s), every iteration reaches %s" % (len(loops), ", ".join(
            "/".join(x.split("::")[-1] for x in (s if isinstance(s, (tuple, list)) else (s,))) for s in sink_suffixes)))


def cluster_loops(ctx, rid):
    loop_rule(ctx, "%s.clustering-keeps-every-vehicle" % rid, TR("one_cluster_per_maintenance"),
              "one_cluster_per_maintenance: every vehicle handed in ends up in a cluster (every iteration of both loops pushes its vehicle)",
              "param:1", [("Vec::push", "push_vehicle_to_end_of_cluster")],
              "a vehicle belongs to no rotation cycle: the cycles no longer partition the fleet", which="all")
    cluster_link(ctx, rid)
    key = TR("one_cluster_per_maintenance")
    o, fd0 = ctx.require_fn("%s.cluster-append-adds-the-link" % rid, "T8", key,
                            "a vehicle joins an existing cluster only through push_vehicle_to_end_of_cluster (which adds the depot link to the "
                            "cluster's counter); a direct push is used only for the one-vehicle list of a new cluster")
    if fd0 is not None:
        direct = []
        for k in ctx.prog.family(key):
            b = ctx.prog.bodies[k]
            for c in b.calls():
                if not (c.callee or "").endswith("Vec::push") or not c.args or c.args[0].place is None:
                    continue
                ty = b.local_ty(c.args[0].place.local)
                if "VehicleIdx" in ty and "(" not in ty:        # &mut Vec<VehicleIdx>: a cluster itself, not the list of (cluster, counter)
                    f = ctx.fd(k)
                    src = f.slice_operand_pure(c, c.args[0])["locals"] if f is not None else ()
                    # ... taken out of the list of clusters (iter_mut / find / last_mut over Vec<(Vec<VehicleIdx>, counter)>)
                    if any("VehicleIdx" in b.local_ty(l) and "(" in b.local_ty(l) for l in src):
                        direct.append(c)
        via = [c for k in ctx.prog.family(key) for c in ctx.prog.bodies[k].calls() if c.callee == TR("push_vehicle_to_end_of_cluster")]
        if direct:
            ctx.bad(o, "a vehicle is pushed onto a cluster directly at %s: the transfer from the cluster's last vehicle to the new one is missing "
                    "from the cycle's counter" % direct[0].line(), loc=direct[0].line())
        elif via:
            ctx.ok(o, "%d append(s), all through push_vehicle_to_end_of_cluster" % len(via))
        else:
            ctx.undecided(o, "no append to a cluster found")


UNIT_FNS = {"in_sec": "seconds", "in_min": "minutes", "in_meter": "metres", "in_km": "kilometres"}


def unit_agreement(ctx, rid, prefixes=("solution::", "solver::", "model::")):
    """`x.in_sec().unwrap_or(y)`: the fallback y is in the unit of x (a quantity converted with in_min / in_km where the value it
    replaces was converted with in_sec / in_meter is off by a factor of 60 / 1000 exactly when the fallback is taken)"""
    o = ctx.ob("%s.fallbacks-in-the-unit-of-the-value" % rid, "T12", "workspace",
               "where an Option produced by in_sec()/in_min()/in_meter()/in_km() falls back to another converted quantity, both use the same unit")
    seen, bad = 0, []
    for k in sorted(ctx.prog.bodies):
        b = ctx.prog.bodies[k]
        if not k.lstrip("<").startswith(prefixes) or getattr(b, "test_unit", False):
            continue
        f = None
        for c in b.calls():
            nm = (c.callee or c.decl or "")
            if not nm.endswith(("Option::unwrap_or", "Option::map_or", "Result::unwrap_or", "Result::map_or")) or len(c.args) < 2:
                continue
            f = f or ctx.fd(k)
            if f is None:
                break
            u1 = [x.split("::")[-1] for x in direct_chain(f, c.args[0]) if x.split("::")[-1] in UNIT_FNS]
            u2 = [x.split("::")[-1] for x in direct_chain(f, c.args[1]) if x.split("::")[-1] in UNIT_FNS]
            if not u1 or not u2:
                continue
            seen += 1
            if u1[0] != u2[0]:
                bad.append((c, u1[0], u2[0]))
    # the cost rates of the configuration are per second: every duration that meets a rate is converted with in_sec()
    o2 = ctx.ob("%s.durations-priced-in-seconds" % rid, "T12", "workspace",
                "in every function that reads a cost rate (CostsConfig) durations are converted with in_sec(), never with another unit")
    COSTS_ = "field:model::config::CostsConfig."
    n_sec, wrong = 0, []
    for k in sorted(ctx.prog.bodies):
        b = ctx.prog.bodies[k]
        if not k.lstrip("<").startswith(prefixes) or getattr(b, "test_unit", False) or b.is_closure:
            continue
        fam = ctx.prog.family(k)
        convs = [(k2, c) for k2 in fam for c in ctx.prog.bodies[k2].calls() if (c.callee or "").split("::")[-1] in ("in_sec", "in_min", "in_hour")
                 and "duration" in (c.callee or "").lower()]
        if not convs:
            continue
        reads_rate = False
        for k2 in fam:
            f2 = ctx.fd(k2)
            if f2 is not None and any(a.startswith(COSTS_) for a in f2.slice(seed_locals=list(range(len(f2.body.locals))), control=False)["atoms"]):
                reads_rate = True
                break
        if not reads_rate:
            continue
        for k2, c in convs:
            if (c.callee or "").endswith("in_sec"):
                n_sec += 1
            else:
                wrong.append(c)
    if wrong:
        ctx.bad(o2, "%s() at %s in a function that prices time with the per-second cost rates: the amount is off by the conversion factor"
                % ((wrong[0].callee or "").split("::")[-1], wrong[0].line()), loc=wrong[0].line())
    elif n_sec:
        ctx.ok(o2, "%d conversion(s), all in_sec()" % n_sec)
    else:
        ctx.undecided(o2, "no priced duration found")
    if bad:
        c, a, b_ = bad[0]
        ctx.bad(o, "at %s a value in %s falls back to one in %s: the figure computed here is off by the conversion factor whenever the fallback "
                "is taken, and no longer agrees with its twin computation" % (c.line(), UNIT_FNS[a], UNIT_FNS[b_]), loc=c.line())
    elif seen:
        ctx.ok(o, "%d fallback(s), units agree" % seen)
    else:
        ctx.undecided(o, "no converted fallback found")


def cluster_link(ctx, rid):
    """a vehicle appended to a cluster is linked to the cluster's LAST vehicle: transfer(end depot of last -> its own start depot)"""
    key = TR("push_vehicle_to_end_of_cluster")
    o, fd = ctx.require_fn("%s.cluster-link-from-last-vehicle" % rid, "T12", key,
                           "the transfer added for a vehicle appended to a cluster runs from the end depot of the cluster's last vehicle to the "
                           "vehicle's own start depot")
    if fd is None:
        return
    verdicts = []
    for c in fd.body.calls():
        if not (c.callee or "").endswith("dead_head_distance_between") or len(c.args) < 3:
            continue
        ch = direct_chain(fd, c.args[1])
        for gi in direct_chain(fd, c.args[1], want_instrs=True):
            if (gi.callee or "").endswith("HashMap::get") and len(gi.args) > 1:
                ch = ch + direct_chain(fd, gi.args[1])      # ... and which vehicle's tour is looked up
        names = {x.split("::")[-1] for x in ch}
        if "first" in names and "last" not in names:
            verdicts.append((c, False, "the transfer starts at the FIRST vehicle of the cluster"))
        elif "start_depot" in names and "end_depot" not in names:
            verdicts.append((c, False, "the transfer starts at a start depot"))
        elif "last" in names and "end_depot" in names:
            verdicts.append((c, True, "from end_depot(last vehicle)"))
    wrong = [v for v in verdicts if not v[1]]
    if wrong:
        ctx.bad(o, "%s (%s): with three or more vehicles in a cluster the cached counter of the cycle differs from the sum over its links" % (
            wrong[0][2], wrong[0][0].line()), loc=wrong[0][0].line())
    elif verdicts:
        ctx.ok(o, verdicts[0][2])
    else:
        ctx.undecided(o, "the link of the appended vehicle is not in a recognised form")


def completeness_loops(ctx, rid):
    NW = N("new")
    loop_rule(ctx, "%s.network.service-trips-registered" % rid, NW,
              "Network::new: every service trip of the input becomes a node and is listed under its vehicle type",
              call("model::network::nodes::Node::create_service_trip_node"), ["Vec::push", "HashMap::insert"],
              "a trip of the instance silently disappears from the problem")
    loop_rule(ctx, "%s.network.maintenance-slots-registered" % rid, NW,
              "Network::new: every maintenance slot of the input becomes a node and is listed",
              call("model::network::nodes::Node::create_maintenance_node"), ["Vec::push", "HashMap::insert"],
              "a maintenance slot silently disappears from the problem")


def depot_replacement_tests(ctx, rid):
    """a depot is replaced when it differs from the one of the same side of the tour: replace_start_depot is guarded by a comparison
    with start_depot(), replace_end_depot by one with end_depot()"""
    key = S("improve_depots_of_tour")
    o, fd = ctx.require_fn("%s.depot-replaced-iff-it-differs" % rid, "T12", key,
                           "improve_depots_of_tour compares the new start depot with the tour's start depot and the new end depot with its end depot")
    if fd is None:
        return
    bad, n = [], 0
    for side_, other in (("start", "end"), ("end", "start")):
        for c in calls_to(fd, T("replace_%s_depot" % side_)):
            for sw, cal, d in controlling_sources(fd, c):
                if d is None or d.kind != "call" or (d.decl or "") not in ("core::cmp::PartialEq::ne", "core::cmp::PartialEq::eq"):
                    continue
                e = shape.expr_of_instr(fd, d)
                cs = shape.calls_of(e)
                good = any(x.endswith("Tour::%s_depot" % side_) for x in cs)
                wrong = any(x.endswith("Tour::%s_depot" % other) for x in cs)
                n += 1
                if wrong and not good:
                    bad.append((d, "replace_%s_depot at %s is guarded by a comparison with the tour's %s depot: %s" % (side_, c.line(), other, shape.show(e)[:100])))
                else:
                    # polarity: the replacement lies on the edge on which the depots differ
                    t_true, t_false = sw.otherwise, dict(sw.targets).get(0)
                    differ = t_true if d.decl.endswith("::ne") else t_false
                    same = t_false if d.decl.endswith("::ne") else t_true
                    if differ is not None and same is not None and fd.cfg.dominates(same, c.bb) and not fd.cfg.dominates(differ, c.bb):
                        bad.append((d, "replace_%s_depot at %s runs when the depots are EQUAL" % (side_, c.line())))
    if bad:
        ctx.bad(o, bad[0][1] + ": a better depot is ignored, or the tour is rebuilt with the depot it already has while the usage counters change",
                loc=bad[0][0].line())
    elif n:
        ctx.ok(o, "%d guarded replacement(s)" % n)
    else:
        ctx.undecided(o, "guards not recognised")
    # the neighbour of the replaced depot
    for name, want in (("replace_end_depot", "len-2"), ("replace_start_depot", "1")):
        k2 = T(name)
        o2, f2 = ctx.require_fn("%s.%s.neighbour-of-the-depot" % (rid, name), "T12", k2,
                                "%s: the transfer that changes is the one between the depot and its neighbour (nodes[%s])" % (name, want))
        if f2 is None:
            continue
        probs, seen = [], 0
        for c in f2.body.calls():
            if "between" not in (c.callee or "").split("::")[-1] or len(c.args) < 3:
                continue
            for a in c.args[1:3]:
                e = shape.normalise(shape.expr(f2, a))
                for ix in _find_calls(e, "Index>::index"):
                    if len(ix[2]) != 2:
                        continue
                    seen += 1
                    i_ = ix[2][1]
                    if name == "replace_start_depot":
                        if i_[0] == "const" and not str(i_[1]).startswith("1"):
                            probs.append((c, "nodes[%s]" % i_[1]))
                    else:
                        # (len - 1) - 1 or len - 2
                        txt = shape.show(i_)
                        depth = txt.count("- 1_usize")
                        if i_[0] == "bin" and i_[1] == "Sub" and depth == 1 and "2_usize" not in txt:
                            probs.append((c, "nodes[%s] (the depot itself)" % txt))
                        elif i_[0] == "bin" and i_[1] == "Add":
                            probs.append((c, "nodes[%s]" % txt))
        if probs:
            ctx.bad(o2, "%s at %s uses %s as the depot's neighbour: the dead-head delta is computed for a transfer that is not in the tour" % (
                (probs[0][0].callee or "").split("::")[-1], probs[0][0].line(), probs[0][1]), loc=probs[0][0].line())
        elif seen:
            ctx.ok(o2, "%d indexed neighbour operand(s)" % seen)
        else:
            ctx.undecided(o2, "neighbour operands not recognised")


def transition_counter_deltas(ctx, rid):
    """the counter of a rotation cycle after one vehicle changed / left / joined: old counter - (what the vehicle contributed, or the
    link that is opened) + (what it contributes now, or the link that closes the gap)"""
    HELP = "maintenance_counter_of_tour_plus_dead_head_trips_before_and_after"
    spec = {"update_vehicle": "update", "remove_vehicle": "remove", "add_vehicle_at_the_end": "add"}
    for name, mode in spec.items():
        key = TR(name)
        o, fd = ctx.require_fn("%s.%s.cycle-counter-delta" % (rid, name), "T12", key,
                               "%s: new cycle counter = old counter - (leaving contribution) + (arriving contribution)" % name)
        if fd is None:
            continue
        roots = _roots_with(fd, ("TransitionCycle::maintenance_counter",), types=("i64",))
        bad, n = [], 0
        for ins, e in roots:
            terms = flatten(e)
            if any(t[0] == "field" for _, t in terms):
                continue        # the totals of the transition (other rule)
            base = [s for s, t in terms if t[0] == "call" and t[1].endswith("TransitionCycle::maintenance_counter")]
            if base != [1]:
                continue
            for s, t in terms:
                if t[0] == "call" and t[1].endswith("TransitionCycle::maintenance_counter"):
                    continue
                # classified by the top of the term only (its operands reach far back through the cycle vector)
                top = t
                if top[0] == "call" and top[1].endswith("::in_meter") and top[2]:
                    top = top[2][0]
                is_help = top[0] == "call" and top[1].endswith(HELP)
                is_link = top[0] == "call" and top[1].endswith("dead_head_distance_between")
                want = None
                if mode == "update" and is_help:
                    h = _find_calls(t, HELP)
                    tour_arg = h[0][2][1] if h and len(h[0][2]) > 1 else ("?",)
                    want = 1 if tour_arg == ("param", 3) else (-1 if tour_arg[0] == "call" else None)
                elif mode == "remove":
                    want = -1 if is_help else (1 if is_link else None)
                elif mode == "add":
                    want = 1 if is_help else (-1 if is_link else None)
                if want is None:
                    continue
                n += 1
                if want != s:
                    bad.append((ins, "%s%s although it is what %s the cycle" % ("+" if s > 0 else "-", shape.show(t)[:80], "leaves" if want < 0 else "joins")))
        if bad:
            ctx.bad(o, bad[0][1] + ": the counter of the cycle (and the maintenance violation) is wrong from here on", loc=bad[0][0].line())
        elif n:
            ctx.ok(o, "%d signed contribution(s)" % n)
        else:
            ctx.undecided(o, "contributions not recognised")
    # a one-vehicle cycle closes on itself: end depot -> start depot of the same tour
    o = ctx.ob("%s.self-loop-direction" % rid, "T12", TRANSITION, "the transfer of a one-vehicle cycle runs from the tour's end depot to its own start depot")
    bad, n = [], 0
    for key in sorted(ctx.prog.bodies):
        if not key.startswith(TRANSITION + "::") or getattr(ctx.prog.bodies[key], "test_unit", False) or "verify_consistency" in key:
            continue
        fd = ctx.an.fd(key)
        for c in fd.body.calls():
            if not (c.callee or "").endswith("dead_head_distance_between") or len(c.args) < 3:
                continue
            e1, e2 = shape.expr(fd, c.args[1]), shape.expr(fd, c.args[2])
            if e1[0] == "call" and e2[0] == "call" and e1[2] and e2[2] and e1[2][0] == e2[2][0] and e1[2][0][0] != "?":
                a, b = e1[1].split("::")[-1], e2[1].split("::")[-1]
                if {a, b} <= {"end_depot", "start_depot"}:
                    n += 1
                    if (a, b) != ("end_depot", "start_depot"):
                        bad.append((c, "%s -> %s" % (a, b)))
    if bad:
        ctx.bad(o, "the self-transfer at %s runs %s of the same tour" % (bad[0][0].line(), bad[0][1]), loc=bad[0][0].line())
    elif n:
        ctx.ok(o, "%d self-transfer(s)" % n)
    else:
        ctx.undecided(o, "no self-transfer recognised")
    # add_vehicle_at_the_end: "the vehicle is alone in its cycle" is asked of the cycle WITH the new vehicle (length 1), or of the
    # cycle before it joined (length 0 / empty); the old cycle having one vehicle is the opposite case
    key = TR("add_vehicle_at_the_end")
    o, fd = ctx.require_fn("%s.add_vehicle_at_the_end.alone-test" % rid, "T12", key,
                           "the self-loop case is taken when the cycle consists of the new vehicle alone (new length 1 = old length 0)")
    if fd is not None:
        verdicts = []
        for ins in fd.body.instrs():
            if ins.kind != "assign" or ins.rv_kind() != "binop" or ins.rv["op"] not in ("Eq", "Ne") or len(ins.ops) != 2:
                continue
            cs = [op for op in ins.ops if op.place is None]
            vs = [op for op in ins.ops if op.place is not None]
            if len(cs) != 1 or len(vs) != 1:
                continue
            k = cs[0].const_val()
            if k is None:
                continue
            ch = direct_chain(fd, vs[0])
            if not ch or not ch[0].endswith("::len"):
                continue
            built = any(x.split("::")[-1] in ("collect", "chain", "push", "from_iter", "extend") for x in ch[1:])
            from_cycles = any("TransitionCycle" in x or x.endswith("::get") for x in ch)
            if not from_cycles and not built:
                continue
            if built:
                verdicts.append((ins, k == 1, "the new cycle vector has length %d" % k))
            else:
                verdicts.append((ins, k == 0, "the cycle before the vehicle joined has length %d" % k))
        empt = [c for c in fd.body.calls() if (c.callee or "").endswith("TransitionCycle::is_empty")]
        wrong = [v for v in verdicts if not v[1]]
        if wrong:
            ctx.bad(o, "the self-loop case is taken when %s: a vehicle joining an empty cycle is linked to neighbours that do not exist, "
                    "one joining a one-vehicle cycle gets the counter of a lone vehicle" % wrong[0][2], loc=wrong[0][0].line())
        elif verdicts or empt:
            ctx.ok(o, "; ".join(v[2] for v in verdicts) or "is_empty() of the old cycle")
        else:
            ctx.undecided(o, "no length test of the cycle recognised")
    # add_vehicle_at_the_end: the new vehicle goes between the old last vehicle (its END depot) and the first vehicle (its START depot)
    o, fd = ctx.require_fn("%s.add_vehicle_at_the_end.neighbours" % rid, "T12", key,
                           "the vehicle appended to a cycle sits between the END depot of the previous last vehicle and the START depot of the first")
    if fd is not None:
        probs, seen = [], 0
        for ins in fd.body.instrs():
            if ins.kind == "assign" and ins.rv_kind() == "agg" and ins.rv.get("ak") == "closure":
                ck = ins.rv["closure"]
                cb = ctx.prog.bodies.get(ck)
                if cb is None:
                    continue
                direct = {(c.callee or "").split("::")[-1] for c in cb.calls()}
                if not direct & {"end_depot", "start_depot"}:
                    continue
                # which element of the cycle the closure is mapped over: first() or get(len - 2)
                users = [c for c in fd.body.calls() if any(a.place is not None and a.place.local == ins.place.local for a in c.args)]
                for u in users:
                    recv = shape.expr(fd, u.args[0]) if u.args else ("?",)
                    rc = {recv[1]} if recv[0] == "call" else set()      # the call the closure is mapped over, not what feeds it
                    if any(x.endswith("::first") for x in rc):
                        seen += 1
                        if "start_depot" not in direct:
                            probs.append((u, "the first vehicle contributes its %s" % "/".join(sorted(direct & {"end_depot", "start_depot"}))))
                    elif any(x.endswith("::last") for x in rc):
                        seen += 1
                        probs.append((u, "the successor of the appended vehicle is taken with last()"))
                    elif any(x.endswith("::get") for x in rc):
                        seen += 1
                        if "end_depot" not in direct:
                            probs.append((u, "the previous last vehicle contributes its %s" % "/".join(sorted(direct & {"end_depot", "start_depot"}))))
        if probs:
            ctx.bad(o, "%s (at %s)" % (probs[0][1], probs[0][0].line()), loc=probs[0][0].line())
        elif seen >= 2:
            ctx.ok(o, "predecessor: end depot of get(len-2); successor: start depot of first()")
        else:
            ctx.undecided(o, "neighbour look-ups not recognised")


def tour_formulas(ctx, rid):
    shape_rule(ctx, "%s.maintenance_counter.formula" % rid, T("maintenance_counter"),
               ("bin", "Sub", ("call", "in_meter", [("call", "Tour::total_distance", [side(1)])]), ("call", "in_meter", [ANY])),
               "a maintained tour's counter = total distance - maximal distance between maintenances",
               "every maintained vehicle looks overdue by twice the allowance: the maintenance violation is wrong")
    shape_rule(ctx, "%s.total_distance.formula" % rid, T("total_distance"),
               ("bin", "Add", ("field", None, "service_distance"), ("field", None, "dead_head_distance")),
               "total distance = service distance + dead-head distance")
    # the reference times of the two position searches
    for fn, helper, want, other in (("latest_not_reaching_node", "earliest_arrival_after", "start_time", "end_time"),
                                    ("latest_not_reached_by_node", "latest_departure_before", "end_time", "start_time")):
        key = T(fn)
        if key not in ctx.prog.bodies:
            continue
        o, fd = ctx.require_fn("%s.%s.reference-time" % (rid, fn), "T12", key,
                               "%s searches relative to the %s of the given node" % (fn, want))
        if fd is None:
            continue
        cs = calls_to(fd, T(helper))
        if not cs:
            ctx.undecided(o, "the bisection is not called directly")
            continue
        ch = direct_chain(fd, cs[0].args[1])
        names = {x.split("::")[-1] for x in ch}
        top = shape.normalise(shape.expr(fd, cs[0].args[1]))
        if top[0] == "bin" and want in names:
            ctx.bad(o, "%s is asked relative to %s: the reference is shifted away from the node's %s, so nodes inside the shift are "
                    "wrongly classified before can_reach is asked" % (helper, shape.show(top)[:80], want), loc=cs[0].line())
        elif other in names and want not in names:
            ctx.bad(o, "%s is asked relative to the node's %s: nodes that overlap the given node are treated as connectable (or connectable ones "
                    "as conflicting)" % (helper, other), loc=cs[0].line())
        elif want in names:
            ctx.ok(o, "%s(%s(node))" % (helper, want))
        else:
            ctx.undecided(o, "reference time not recognised")
