"""The one-line formulas the model rests on, as expression shapes (rss/shape.py)."""
from .. import shape
from ..rulelib import *

ANY = ("any",)


def shape_rule(ctx, oid, key, pattern, text, consequence=""):
    o, fd = ctx.require_fn(oid, "T12", key, text)
    if fd is None:
        return
    verdict, ins, shown = "undecided", None, ""
    for f in hosts(ctx, key, depth=1):
        v, i, s = shape.decide(f, pattern)
        if v == "ok":
            verdict, ins, shown = v, i, s
            break
        if v == "bad" and verdict != "bad":
            verdict, ins, shown = v, i, s
    if verdict == "ok":
        ctx.ok(o, shown)
    elif verdict == "bad":
        ctx.bad(o, "the documented ingredients are combined as %s at %s%s" % (shown, ins.line(), (": " + consequence) if consequence else ""), loc=ins.line())
    else:
        ctx.undecided(o, "no expression with the documented ingredients was found")


def side(i):
    return ("side", i)


def same_place_test(ctx, rid):
    """which branch of the turnaround rule is taken: decided on end_location(n1) vs start_location(n2), travel time only when they differ"""
    from .. import optabs
    key = N("minimal_duration_between_nodes_as_ref")
    o, fd = ctx.require_fn("%s.turnaround.same-place-test" % rid, "T12+abs", key,
                           "a dead-head trip (travel time + dead-head shunting) is used iff end_location(n1) differs from start_location(n2)")
    if fd is None:
        return
    ops = (("call", "Node::end_location", [side(2)]), ("call", "Node::start_location", [side(3)]))
    found = None
    for ins in fd.body.instrs():
        if ins.kind != "call":
            continue
        op = shape.CALL_OPS.get(ins.decl or "")
        if op not in ("Eq", "Ne"):
            continue
        e = shape.normalise(shape.expr_of_instr(fd, ins))
        if shape.match(("bin", op, ops[0], ops[1]), e):
            found = (ins, op, True)
            break
        have = shape.calls_of(e)
        if any(h.endswith("_location") for h in have):
            found = found or (ins, op, False)
    if found is None:
        ctx.undecided(o, "the comparison of the two locations is not recognised")
        return
    ins, op, operands_ok = found
    if not operands_ok:
        ctx.bad(o, "the locations compared at %s are not end_location(n1) and start_location(n2): %s" % (
            ins.line(), shape.show(shape.expr_of_instr(fd, ins))), loc=ins.line())
        return
    res = {}
    for equal in (True, False):
        v = "T" if (equal == (op == "Eq")) else "F"
        it = optabs.OptInterp(fd.body, {ins.id: v})
        it.run()
        calls = set()
        for r in it.records:
            calls |= set(r["calls"])
        res[equal] = calls
    tt = lambda cs: any(c.endswith("Locations::travel_time") for c in cs)
    if tt(res[True]) or not tt(res[False]):
        ctx.bad(o, "with equal locations travel_time is %s, with different locations it is %s: the two branches of the turnaround rule are "
                "exchanged" % ("asked" if tt(res[True]) else "not asked", "asked" if tt(res[False]) else "not asked"), loc=ins.line())
    else:
        ctx.ok(o, "travel time and dead-head shunting exactly when the locations differ")


def forbid_rule(ctx, rid):
    """between two activities: with forbidDeadHeadTrips and different locations can_reach is false whatever the times are; in
    every other case the answer is left to the time test"""
    from .. import optabs
    key = N("can_reach")
    CFG = "model::config::Config"
    o, fd = ctx.require_fn("%s.can_reach.forbid-dead-heads" % rid, "T12+abs", key,
                           "between activities: forbid flag and different locations => false; otherwise the time test decides")
    if fd is None:
        return
    node = ctx.prog.adts.get(NODE)
    names = [v["name"] for v in node["variants"]] if node else []
    if "Service" not in names:
        ctx.undecided(o, "Node::Service not found")
        return
    sv = names.index("Service")
    ops = (("call", "Node::end_location", [side(2)]), ("call", "Node::start_location", [side(3)]))
    cmp_ins = None
    for ins in fd.body.instrs():
        if ins.kind == "call" and shape.CALL_OPS.get(ins.decl or "") in ("Eq", "Ne"):
            e = shape.normalise(shape.expr_of_instr(fd, ins))
            opn = shape.CALL_OPS[ins.decl]
            if shape.match(("bin", opn, ops[0], ops[1]), e):
                cmp_ins = (ins, opn)
            elif cmp_ins is None and any(h.endswith("_location") for h in shape.calls_of(e)):
                ctx.bad(o, "the locations compared at %s are not end_location(n1) and start_location(n2): %s" % (ins.line(), shape.show(e)), loc=ins.line())
                return
    if cmp_ins is None:
        ctx.undecided(o, "the comparison of the two locations is not recognised")
        return
    ins, opn = cmp_ins
    sides = {2: [], 3: []}
    for l in range(fd.body.argc + 1, len(fd.body.locals)):
        ty = fd.body.local_ty(l)
        if ty.startswith("&") and ty.rstrip().endswith("Node"):
            at = fd.slice(seed_locals=[l], control=False)["atoms"]
            if ("param:2" in at) != ("param:3" in at):
                sides[2 if "param:2" in at else 3].append(l)
    forced = {l: sv for l in sides[2] + sides[3]}
    vi = {n: i for i, n in enumerate(names)}
    preds = {ND("is_start_depot"): {vi.get("StartDepot")}, ND("is_end_depot"): {vi.get("EndDepot")},
             ND("is_depot"): {vi.get("StartDepot"), vi.get("EndDepot")}}
    flag = [a for a in ("field:%s.forbid_dead_head_trip" % CFG,)]
    bad = []
    for forbid in "TF":
        for differ in (True, False):
            it = optabs.OptInterp(fd.body, {ins.id: "T" if (differ == (opn == "Ne")) else "F"})
            it.forced = dict(forced)
            it.enum_preds = preds
            it.field_values = {flag[0]: forbid}
            it.run()
            got = {r["ret"] if isinstance(r["ret"], str) else "?" for r in it.records}
            case = "forbid flag %s, locations %s" % ("set" if forbid == "T" else "not set", "differ" if differ else "equal")
            if forbid == "T" and differ:
                if got != {"F"}:
                    bad.append("%s => %s (must be false)" % (case, "/".join(sorted(got))))
            elif got and got <= {"T", "F"}:
                bad.append("%s => always %s, the times are never looked at" % (case, "/".join(sorted(got))))
    if bad:
        ctx.bad(o, "; ".join(bad[:3]), loc=ins.line())
    else:
        ctx.ok(o, "4 cases between two service trips as documented")


def network_formulas(ctx, rid):
    forbid_rule(ctx, rid)
    end_t = lambda s: ("call", "Node::end_time", [side(s)])
    start_t = lambda s: ("call", "Node::start_time", [side(s)])
    shape_rule(ctx, "%s.can_reach.formula" % rid, N("can_reach"),
               ("bin", "Le", ("bin", "Add", end_t(2), ("call", "minimal_duration_between_nodes_as_ref", [ANY, side(2), side(3)])), start_t(3)),
               "can_reach: end_time(n1) + minimal_duration(n1, n2) <= start_time(n2)",
               "connections are accepted that a vehicle cannot make (or refused although it can)")
    shape_rule(ctx, "%s.idle_time.formula" % rid, N("idle_time_between"),
               ("bin", "Sub", start_t(3), ("bin", "Add", end_t(2), ("call", "dead_head_time_between", [ANY, side(2), side(3)]))),
               "idle time = start_time(n2) - (end_time(n1) + dead_head_time(n1, n2))",
               "idle costs of every tour are wrong")
    shape_rule(ctx, "%s.turnaround.formula" % rid, N("minimal_duration_between_nodes_as_ref"),
               ("bin", "Add", ("call", "Locations::travel_time", [ANY, ("call", "Node::end_location", [side(2)]), ("call", "Node::start_location", [side(3)])]),
                ("call", "shunting_duration_between_activities_if_dead_head_trip", [ANY, side(2), side(3)])),
               "turnaround with a dead-head trip = travel_time(end_location(n1), start_location(n2)) + dead-head shunting")
    same_place_test(ctx, rid)
    shape_rule(ctx, "%s.duration.formula" % rid, ND("duration"),
               ("bin", "Sub", ("call", "Node::end_time", [side(1)]), ("call", "Node::start_time", [side(1)])),
               "duration of an activity = end_time - start_time", "useful duration and all duration-based costs are wrong")
