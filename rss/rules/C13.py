"""C13 - schedule modifications change exactly what they document."""
from ..engine import run_controls
from ..rulelib import *
from . import common, purity

NOTE = ("Frame conditions per producer (which fields of the result are unmodified copies of self), type-directed "
        "hand-back flow of every Path cut out of a tour, disappearance of emptied vehicles, callee identity of the "
        "formation edits (push / order-keeping remove / replace at the found position), immutability of the input. "
        "Decided on MIR for all paths; the effect on concrete node sets is NOT decided.")

FRAMES = {
    "improve_depots": ["vehicles", "train_formations", "dummy_tours", "vehicle_counter", "vehicle_ids_grouped_and_sorted",
                       "dummy_ids_sorted", "unserved_passengers", "network"],
    "reassign_end_depots_greedily": ["vehicles", "train_formations", "dummy_tours", "vehicle_counter",
                                     "vehicle_ids_grouped_and_sorted", "dummy_ids_sorted", "unserved_passengers", "network"],
    "reassign_end_depots_consistent_with_transitions": ["vehicles", "train_formations", "dummy_tours", "vehicle_counter",
                                                        "vehicle_ids_grouped_and_sorted", "dummy_ids_sorted",
                                                        "unserved_passengers", "network"],
    "recompute_transitions_for": ["vehicles", "tours", "train_formations", "depot_usage", "dummy_tours", "vehicle_counter",
                                  "vehicle_ids_grouped_and_sorted", "dummy_ids_sorted", "unserved_passengers", "costs", "network"],
    "set_next_day_transitions": ["vehicles", "tours", "train_formations", "depot_usage", "dummy_tours", "vehicle_counter",
                                 "vehicle_ids_grouped_and_sorted", "dummy_ids_sorted", "unserved_passengers", "costs", "network"],
    "delete_dummy": ["vehicles", "tours", "next_period_transitions", "train_formations", "depot_usage", "vehicle_counter",
                     "vehicle_ids_grouped_and_sorted", "unserved_passengers", "maintenance_violation", "costs", "network"],
    "add_path_to_vehicle_tour": ["vehicles", "dummy_tours", "vehicle_counter", "vehicle_ids_grouped_and_sorted",
                                 "dummy_ids_sorted", "network"],
    "remove_segment": ["vehicles", "vehicle_ids_grouped_and_sorted", "network"],
    "fit_reassign": ["vehicle_counter", "network"],
    "spawn_vehicle_for_path": ["dummy_tours", "dummy_ids_sorted", "network"],
}
TOUR_FRAMES = {
    "replace_start_depot": ["is_dummy", "visits_maintenance", "useful_duration", "service_distance", "network"],
    "replace_end_depot": ["is_dummy", "visits_maintenance", "useful_duration", "service_distance", "network"],
    "remove": ["is_dummy", "network"],
    "insert_path": ["is_dummy", "network"],
}
PATH_TYPES = (PATH, "core::option::Option<%s>" % PATH)
VEC = "alloc::vec::Vec"


def is_path_ty(fd, l):
    ty = fd.body.local_ty(l)
    return ty.endswith("path::Path") or ty.endswith("path::Path>") and ty.startswith("std::option::Option<")


def hand_back(ctx, rid="R3"):
    """every Path produced by Tour::remove / Tour::insert_path inside impl Schedule reaches a hand-back sink"""
    sinks = {T("new_dummy"): 0, T("insert_path"): 1}
    total = 0
    for key in sorted(ctx.prog.bodies):
        if not key.startswith(SCHEDULE + "::") or "{closure" in key:
            continue
        body = ctx.prog.bodies[key]
        if getattr(body, "test_unit", False):
            continue
        prods = [c for c in body.calls() if c.callee in (T("remove"), T("insert_path"))]
        if not prods:
            continue
        fd = ctx.fd(key)
        for n, c in enumerate(prods):
            total += 1
            name = key.split("::")[-1]
            o = ctx.ob("%s.%s.%s#%d.path-handed-back" % (rid, name, c.callee.split("::")[-1], n), "T10", key,
                       "%s: the path cut out by %s is returned, parked in a dummy tour or inserted elsewhere"
                       % (name, c.callee.split("::")[-1]))
            o.loc = c.line()
            carriers = set()
            for l in range(len(fd.body.locals)):
                if is_path_ty(fd, l):
                    sl = fd.slice(seed_locals=[l], control=False)
                    if any(d.instr is c for d in sl["defs"]):
                        carriers.add(l)
            ok = None
            for s in fd.body.calls():
                if s.callee in sinks and s is not c:
                    a = s.args[sinks[s.callee]]
                    if a.place is not None and (a.place.local in carriers or
                                                carriers & fd.slice(seed_locals=fd.operand_uses(a), control=False)["locals"]):
                        ok = "flows into %s at %s" % (s.callee.split("::")[-1], s.line())
            if ok is None:
                # returned: an operand of Path type in an aggregate that reaches the return place
                rs = fd.slice(seed_locals=[0], control=False)
                for d in rs["defs"]:
                    if d.instr is not None and d.instr.kind == "assign" and d.instr.rv_kind() == "agg":
                        for op in d.instr.ops:
                            if op.place is not None and op.place.is_local and op.place.local in carriers:
                                ok = "returned to the caller"
            # fit_path_into_tour discards the conflict path on purpose: it only inserts when conflict() is None
            if ok is None and name == "fit_path_into_tour" and c.callee == T("insert_path"):
                guard = fd.slice(seed_blocks=[c.bb])["atoms"]
                if call(T("conflict")) in guard:
                    ok = "guarded by Tour::conflict(..).is_some() => nothing is displaced"
            ctx.decide(o, ok is not None, ok or "", "the Path produced by %s at %s is dropped: its nodes vanish from the schedule"
                       % (c.callee.split("::")[-1], c.line()), loc=c.line())
    o = ctx.ob("%s.sites" % rid, "T10", SCHEDULE, "path-producing call sites in impl Schedule are found (floor 6)")
    ctx.floor(o, total, 6, "path-producing call sites")


def is_len_minus_one(fd, c, op):
    """the operand is computed as `<vec>.len() - 1`"""
    idx = fd.slice_operand_pure(c, op)
    return call("alloc::vec::Vec::len") in idx["atoms"] and any(
        d.instr is not None and d.instr.kind == "assign" and d.instr.rv_kind() == "binop" and d.instr.rv["op"].startswith("Sub")
        and any(o_.const_val() == 1 for o_ in d.instr.ops) for d in idx["defs"])


def last_node_overwrites(ctx, rid="R3"):
    """a path's last element is only overwritten by a depot when it is itself a depot (otherwise a trip is silently lost)"""
    INDEX_MUT = "core::ops::index::IndexMut::index_mut"
    n = 0
    for key in sorted(ctx.prog.bodies):
        if not key.startswith(SCHEDULE + "::") or getattr(ctx.prog.bodies[key], "test_unit", False):
            continue
        fd = None
        for c in ctx.prog.bodies[key].calls():
            if c.decl != INDEX_MUT or not any("NodeIdx" in t for t in c.targs[:1]):
                continue
            fd = fd or ctx.fd(key)
            if not is_len_minus_one(fd, c, c.args[1]):
                idx_at = fd.slice_operand_pure(c, c.args[1])["atoms"]
                if call("alloc::vec::Vec::len") in idx_at and key.endswith("add_suitable_start_and_end_depot_to_path"):
                    n += 1
                    o = ctx.ob("%s.%s.last-node-overwrite#%d" % (rid, key.split("::")[-1], n), "T12", key,
                               "%s: the element that is overwritten is the last one (index len - 1)" % key.split("::")[-1])
                    o.loc = c.line()
                    ctx.bad(o, "the index of the overwrite at %s derives from the length but is not len - 1: it is out of bounds (panic) or hits another node" % c.line(), loc=c.line())
                continue
            n += 1
            o = ctx.ob("%s.%s.last-node-overwrite#%d" % (rid, key.split("::")[-1], n), "T12", key,
                       "%s: the last node of a path is overwritten only if it is a depot" % key.split("::")[-1])
            o.loc = c.line()
            guarded = False
            for sw, cal, d in controlling_sources(fd, c):
                if cal == ND("is_depot") and d is not None:
                    ch = direct_chain(fd, d.args[0], follow={N("node"): 1})
                    if any(x.endswith("::last") for x in ch):
                        guarded = True
                    # or the tested node is read as nodes[len - 1]
                    for ci in direct_chain(fd, d.args[0], follow={N("node"): 1}, want_instrs=True):
                        if (ci.decl or ci.callee or "").endswith("Index::index") and len(ci.args) > 1 and is_len_minus_one(fd, ci, ci.args[1]):
                            guarded = True
            ctx.decide(o, guarded, "guarded by is_depot(last node)",
                       "the element at len-1 is overwritten at %s without testing that the last node is a depot: a path that ends with a "
                       "service trip silently loses that trip" % c.line(), loc=c.line())
    return n


def formation_edits(ctx, rid="R5"):
    def writes(fd, local_name="new_formation"):
        out = []
        for l in range(len(fd.body.locals)):
            if fd.body.local_name(l) == local_name or (fd.body.local_ty(l).startswith("std::vec::Vec<") and "Vehicle" in fd.body.local_ty(l)):
                for d in fd.defs.get(l, ()):
                    if d.kind == "call-mut":
                        out.append(d)
        return out
    IDXMUT = "<alloc::vec::Vec as core::ops::index::IndexMut>::index_mut"
    # per function: the forms known to be right, the forms known to be wrong (from the documented semantics); anything else is undecided
    spec = {
        "add_at_tail": ([{"push"}], [({"insert"}, "Vec::insert puts the vehicle somewhere else than at the tail")],
                        "appends with Vec::push"),
        "remove": ([{"remove"}], [({"swap_remove"}, "swap_remove moves the last vehicle into the gap: the order of the formation changes"),
                                  ({"pop"}, "pop removes the last vehicle, not the given one")],
                   "removes with the order-keeping Vec::remove"),
        "replace": ([{"push", "swap_remove"}, {"index_mut"}, {"remove", "insert"}],
                    [({"push", "remove"}, "the new vehicle ends up at the tail, not at the old one's position"),
                     ({"push"}, "the old vehicle is never taken out"), ({"swap_remove"}, "the new vehicle is never put in")],
                    "puts the new vehicle at the old one's position (push + swap_remove(pos), or an indexed store)"),
    }
    for fn, (good, bad, text) in spec.items():
        key = TRAINF + "::" + fn
        o, fd = ctx.require_fn("%s.%s.edit-operation" % (rid, fn), "T7", key, "TrainFormation::%s %s" % (fn, text))
        if fd is None:
            continue
        got = {(d.info.get("callee") or "").split("::")[-1] for d in writes(fd)}
        got.discard("")
        detail = "vector is edited by %s" % sorted(got)
        why = [w for form, w in bad if got == form]
        if fn == "replace" and "swap_remove" in got and not why:
            # swap_remove(pos) keeps the order only when the element it pulls into the gap is the one that was pushed just before
            ws = writes(fd)
            pushes = [d.instr for d in ws if (d.info.get("callee") or "").endswith("::push")]
            for d in ws:
                if (d.info.get("callee") or "").endswith("::swap_remove") and not any(fd.cfg.instr_dominates(pu, d.instr) for pu in pushes):
                    why = ["swap_remove at %s is not preceded by the push of the new vehicle: it pulls the LAST vehicle of the formation into the gap, "
                           "so the order of the formation changes" % d.instr.line()]
        if why:
            ctx.bad(o, detail + ": " + why[0])
            continue
        if got not in good:
            ctx.undecided(o, detail + " - not one of the recognised forms")
            continue
        ok = True
        if fn == "add_at_tail":
            # the vehicle is appended on every path: whether the same vehicle is already part of the formation is the callers'
            # business (the formation of a node is a multiset position list, the schedule relies on one entry per call)
            for d in writes(fd):
                if (d.info.get("callee") or "").endswith("::push") and not fd.cfg.postdominates(d.instr.bb, 0):
                    ok = False
                    detail += "; the push at %s happens only on some paths: the returned formation can lack the vehicle the caller books on the node" % d.instr.line()
        if fn in ("remove", "replace"):
            idx_call = [c for c in fd.body.calls() if (c.callee or "").split("::")[-1] in ("remove", "swap_remove", "index_mut", "insert")
                        and "Vec" in (c.callee or "")]
            for c in idx_call:
                at = fd.slice_operand_pure(c, c.args[1])["atoms"]
                if not has_method(at, "core::iter::traits::iterator::Iterator::position"):
                    ok = False
                    detail += "; the index at %s does not come from position(..) of the vehicle" % c.line()
        ctx.decide(o, ok, detail, detail)


def positions_count_path_nodes(ctx, rid="R4"):
    """an index taken from enumerate() over a path is used to split the path: it must count path positions, so no adaptor
    that drops elements from the middle (filter, filter_map, skip, step_by) may run before enumerate()"""
    DROPS = ("::filter", "::filter_map", "::skip", "::skip_while", "::step_by", "::rev")
    key = S("fit_path_into_tour")
    o, fd0 = ctx.require_fn("%s.fit-positions-count-path-nodes" % rid, "T12", key,
                            "fit_path_into_tour: the position at which the moved part is split off counts nodes of the path (enumerate before filtering)")
    if fd0 is None:
        return
    seen, bad = 0, []
    for f in hosts(ctx, key):
        for c in f.body.calls():
            if (c.decl or "") != "core::iter::traits::iterator::Iterator::enumerate" and not (c.callee or "").endswith("Iterator::enumerate"):
                continue
            ch = direct_chain(f, c.args[0])
            if not any(x.startswith("solution::path::Path::") for x in ch):
                continue
            seen += 1
            hit = [x for x in ch if any(x.endswith(d) or ("::" + x.split("::")[-1]) == d for d in DROPS)]
            if hit:
                bad.append((c, hit[0]))
    if bad:
        ctx.bad(o, "enumerate() at %s runs after %s: the index counts the candidates that passed the filter, not the position in the path, "
                "so the path is split at the wrong node and nodes end up in the wrong tour" % (bad[0][0].line(), bad[0][1].split("::")[-1]), loc=bad[0][0].line())
    elif seen:
        ctx.ok(o, "%d enumerate() over the path, none behind a dropping adaptor" % seen)
    else:
        ctx.undecided(o, "no enumerate() over the path found")


def tour_vanishes_rule(ctx, rid="R4"):
    """shared with C12 (reference semantics of remove)"""
    o, fdr = ctx.require_fn("%s.tour-vanishes-only-if-nothing-is-left" % rid, "T1", T("remove"),
                            "Tour::remove reports 'nothing left' for a dummy tour only when no node remains, for a real tour when only depots remain")
    if fdr is not None:
        def opt_aggs(v):
            return [i for i in fdr.body.instrs() if i.kind == "assign" and i.rv_kind() == "agg" and i.rv.get("adt") == "core::option::Option"
                    and i.rv.get("v") == v and "Tour" in fdr.body.local_ty(i.place.local)]
        nones, somes = opt_aggs("None"), opt_aggs("Some")
        succ = fdr.cfg.succ

        def reach(b0):
            seen, wl = {b0}, [b0]
            while wl:
                for t in succ[wl.pop()]:
                    if t not in seen:
                        seen.add(t)
                        wl.append(t)
            return seen
        nb, sb = {i.bb for i in nones}, {i.bb for i in somes}
        # the switches that decide between 'nothing left' and 'a shortened tour': one of their edges leads to exactly one
        # of the two outcomes (the early error returns of `?` lead to neither on one edge and to both on the other)
        deciding = []
        for b, sws in fdr.switches.items():
            for t in succ[b]:
                r = reach(t)
                if bool(r & nb) != bool(r & sb):
                    for s2 in condition_switches(fdr, sws[0]):     # with the switches of a short-circuit condition
                        if s2 not in deciding:
                            deciding.append(s2)
                    break
        reads = []
        for sw in deciding:
            cond = fdr.slice(seed_locals=fdr.operand_uses(sw.ops[0]), control=False)["atoms"]
            if field(TOUR, "is_dummy") in cond or call(T("is_dummy")) in cond:
                reads.append(sw)
        if not nones or not somes or not deciding:
            ctx.undecided(o, "the None / Some(tour) results and the branches deciding between them are not in a recognised form")
        else:
            ctx.decide(o, bool(reads), "%d of the %d deciding branches read the dummy flag" % (len(reads), len(deciding)),
                       "none of the %d branches deciding between 'nothing left' and 'shortened tour' looks at the dummy flag: a dummy tour left "
                       "with one or two trips is deleted and its trips vanish (or a real tour of two depots is kept)" % len(deciding),
                       loc=deciding[0].line())


def rules(ctx):
    sites = common.sites_of(ctx, SCHEDULE)
    for fn, same in FRAMES.items():
        common.frame_rule(ctx, "R1", SCHEDULE, sites, S(fn), same,
                          "%s leaves %s untouched" % (fn, ", ".join(same)))
    tsites = common.sites_of(ctx, TOUR)
    for fn, same in TOUR_FRAMES.items():
        common.frame_rule(ctx, "R1.tour", TOUR, tsites, T(fn), same, "Tour::%s leaves %s untouched" % (fn, ", ".join(same)))
    purity.no_public_mutators(ctx, "R2.no-public-mutators")
    purity.no_interior_mutability(ctx, "R2.no-interior-mutability")
    hand_back(ctx)
    last_node_overwrites(ctx)
    must_depend(ctx, "R4.emptied-vehicle-is-replaced", "T1", S("remove_segment"), "ret", [call(S("replace_vehicle_by_dummy")), call(T("remove"))],
                "remove_segment: a vehicle whose whole tour is removed is replaced by a dummy (its trips are kept)")
    o, fd = ctx.require_fn("R4.emptied-provider-disappears", "T1", S("update_tours"),
                           "update_tours: a provider left without a tour is deleted from vehicles, tours and the id listings")
    if fd is not None:
        s = ctx.an.summaries.get(S("update_tours"))
        need = {"mut:2": "vehicles", "mut:3": "tours", "mut:7": "vehicle_ids_grouped_and_sorted", "mut:6": "dummy_tours", "mut:8": "dummy_ids_sorted"}
        miss = [n for ch, n in need.items() if ch not in s.channels]
        ctx.decide(o, not miss, "all five collections are written", "update_tours never writes: %s" % ", ".join(miss))
    tour_vanishes_rule(ctx)
    from .C11 import hitch_hiking_refuses_conflicts, swap_stages_chain
    swap_stages_chain(ctx, "R4")       # what one step of a swap displaced is handed to the next step, not dropped with a stale schedule
    hitch_hiking_refuses_conflicts(ctx, "R4")     # displaced activities are handed back or the move is refused, also at the swap level
    from . import formulas as _fm0
    before = len(ctx.obligations)
    _fm0.transition_formulas(ctx, "R7")            # the documented effect of the end-depot alignment: each vehicle ends where its successor starts
    ctx.obligations[before:] = [o_ for o_ in ctx.obligations[before:] if "get_successor_of" in o_.id]
    from .C12 import none_means_all_reachable
    before = len(ctx.obligations)
    none_means_all_reachable(ctx)      # what override/fit displace is decided by these two searches
    for ob in ctx.obligations[before:]:
        ob.id = ob.id.replace("C13/R1.", "C13/R4.searches.")
    positions_count_path_nodes(ctx)
    from . import formulas as _fm
    _fm.remove_segment_guard(ctx, "R4")
    formation_edits(ctx)
    # the documented effect on formations: every node that leaves or enters a tour has its formation updated (shared with C03.R3)
    from .C03 import formations_in_step
    before = len(ctx.obligations)
    formations_in_step(ctx)
    for ob in ctx.obligations[before:]:
        ob.id = ob.id.replace("C13/R3.", "C13/R6.formations.")
    # the conflict set an insertion displaces is decided by the two time prefilters (shared with C12.R3)
    from .C12 import tie_prefilter
    tie_prefilter(ctx)
    from .C10 import fresh_ids
    fresh_ids(ctx, sites)


def controls(ctx):
    def frame(c):
        from .. import prov
        ss = prov.producer_sites(c.an, "controls::Value")
        common.frame_rule(c, "ctl", "controls::Value", ss, "controls::Value::good", ["total"], "frame control: total must be inherited (it is not)")
    return run_controls(purity.controls_specs()[:1] + purity.controls_specs()[3:] + [("frame condition (field rebuilt although it must be inherited)", frame)])
