"""C09 - cached aggregates equal recomputation after any modification history.

Decided statically: the *structure* of the incremental updates - which caches are
rebuilt together with the data they summarise (T2), that no update is computed and
then thrown away (T3), that the Infinity special case of Distance is guarded wherever a
delta is subtracted from the old value (T12), and ordering/source-set conditions.
Not decided: the arithmetic of the delta formulas.
"""
from .. import prov
from ..rulelib import *
from . import common

NOTE = ("Provenance classification of every construction site of Schedule, Tour and Transition over MIR "
        "(same / modified copy / fresh per field, all paths), coupled-update pairs, lost-update detection, "
        "Infinity-guard recogniser for Distance deltas, source-set agreement of delta helpers with the "
        "from-scratch definitions. Necessary structural conditions of cache consistency for all modification "
        "histories; the arithmetic inside the deltas is not decided.")

DIST = "model::base_types::distance::Distance"
DIST_SUB = "<%s as core::ops::arith::Sub>::sub" % DIST
DIST_EQ = "<%s as core::cmp::PartialEq>::eq" % DIST
DIST_NE = "<%s as core::cmp::PartialEq>::ne" % DIST
DHD_FIELD = field(TOUR, "dead_head_distance")

INF_EXEMPT = {
    T("remove"): "remove never changes a depot of a surviving tour (removing a depot is refused unless the "
                 "whole tour goes), so an infinite distance legitimately stays infinite",
}


def infinity_guard(ctx, sites):
    """R4: `old_dead_head_distance - x` must be decided on whether the old value is Infinity"""
    for s in sites:
        if s.fields["nodes"].kind == "same":
            continue
        fd = ctx.an.fd(s.fn)
        # the dead_head_distance operand of the construction
        cm = prov.ctor_map(ctx.prog, common.TOUR_PRE, TOUR)
        if s.kind != "ctor-call" or cm is None:
            continue
        op = s.instr.args[cm["dead_head_distance"] - 1]
        sl = fd.slice_operand_data(s.instr, op)
        subs = []
        for d in sl["defs"]:
            i = d.instr
            if i is not None and i.kind == "call" and i.callee == DIST_SUB:
                lhs = fd.slice_operand_data(i, i.args[0])
                if DHD_FIELD in lhs["atoms"] and not any(
                        dd.instr is not None and dd.instr.kind == "call" and dd.instr.callee == DIST_SUB
                        for dd in lhs["defs"]):
                    subs.append(i)
        if not subs:
            continue
        for n, i in enumerate(subs):
            o = ctx.ob("R4.%s.infinity-guard%s" % (common.short(s.fn), "" if len(subs) == 1 else "#%d" % n),
                       "T12", s.fn,
                       "%s: subtracting from the old dead-head distance is decided on it being Infinity"
                       % common.short(s.fn))
            o.loc = i.line()
            if s.fn in INF_EXEMPT:
                ctx.ok(o, "exempt: " + INF_EXEMPT[s.fn])
                continue
            ctrl = fd.slice(seed_blocks=[i.bb])
            guarded = False
            for sw in ctrl["switches"]:
                cs = fd.slice(seed_locals=fd.operand_uses(sw.ops[0]))
                if DHD_FIELD in cs["atoms"] and (call(DIST_EQ) in cs["atoms"] or call(DIST_NE) in cs["atoms"]
                                                 or any(dd.info.get("rk") == "discr" for dd in cs["defs"])):
                    guarded = True
            ctx.decide(o, guarded, "guarded by a comparison of self.dead_head_distance",
                       "`self.dead_head_distance - ...` at %s is not guarded by a test for Distance::Infinity, although "
                       "this function can replace the (infinitely distant) overflow depot; Infinity - x + y stays "
                       "Infinity (sibling producers guard it)" % i.line(), loc=i.line())


COSTS = "model::config::CostsConfig"
COST_DEF_ATOMS = [field(COSTS, "service_trip"), field(COSTS, "maintenance"), field(COSTS, "dead_head_trip"), field(COSTS, "idle"),
                  call(N("dead_head_time_between")), call(N("idle_time_between")), call(ND("duration"))]
DHD_BETWEEN = call(N("dead_head_distance_between"))
UTF = S("update_train_formation")


def source_sets(ctx):
    """R3 (T9): every incremental helper uses at least the inputs of the from-scratch definition"""
    must_depend(ctx, "R3.definition.costs", "T1", T("compute_costs_of_nodes"), "ret", COST_DEF_ATOMS,
                "from-scratch tour costs use the four rates, dead-head time, idle time and durations")
    for helper in ("costs_of_segment", "costs_of_new_nodes"):
        must_depend(ctx, "R3.%s.agrees-with-definition" % helper, "T9", T(helper), "ret", COST_DEF_ATOMS,
                    "%s uses every input of the from-scratch cost definition" % helper)
    for helper in ("dead_head_distance_of_segment", "dead_head_distance_of_new_nodes"):
        must_depend(ctx, "R3.%s.agrees-with-definition" % helper, "T9", T(helper), "ret", [DHD_BETWEEN, field(TOUR, "nodes")],
                    "%s sums Network::dead_head_distance_between like the from-scratch definition" % helper)
    must_depend(ctx, "R3.definition.dead-head-distance", "T1", T("compute_dead_head_distance_of_nodes"), "ret", [DHD_BETWEEN, "param:1"],
                "from-scratch dead-head distance sums dead_head_distance_between over consecutive nodes")
    must_depend(ctx, "R3.definition.service-distance", "T1", T("compute_service_distance_of_nodes"), "ret", [call(ND("travel_distance")), "param:1"],
                "from-scratch service distance sums the nodes' travel distances")
    must_depend(ctx, "R3.definition.useful-duration", "T1", T("compute_useful_duration_of_nodes"), "ret", [call(ND("duration")), "param:1"],
                "from-scratch useful duration sums the nodes' durations")
    must_depend(ctx, "R3.definition.visits-maintenance", "T1", T("compute_visits_maintenance"), "ret", [call(ND("is_maintenance")), "param:1"],
                "from-scratch visits-maintenance scans the nodes for a maintenance slot")
    # per-operand source sets of the four incremental producers
    cm = prov.ctor_map(ctx.prog, common.TOUR_PRE, TOUR)
    table = {
        T("replace_start_depot"): {"dead_head_distance": [DHD_BETWEEN, DHD_FIELD, "param:2"],
                                   "costs": [field(TOUR, "costs"), call(N("dead_head_time_between")), field(COSTS, "dead_head_trip"), "param:2"]},
        T("replace_end_depot"): {"dead_head_distance": [DHD_BETWEEN, DHD_FIELD, "param:2"],
                                 "costs": [field(TOUR, "costs"), call(N("dead_head_time_between")), field(COSTS, "dead_head_trip"), "param:2"]},
        T("remove"): {"dead_head_distance": [DHD_FIELD, call(T("dead_head_distance_of_segment")), DHD_BETWEEN],
                      "costs": [field(TOUR, "costs"), call(T("costs_of_segment")), call(T("dead_head_and_idle_costs_between_two_nodes"))],
                      "useful_duration": [field(TOUR, "useful_duration"), call(ND("duration"))],
                      "service_distance": [field(TOUR, "service_distance"), call(ND("travel_distance"))],
                      "visits_maintenance": [field(TOUR, "visits_maintenance"), call(ND("is_maintenance"))]},
        T("insert_path"): {"dead_head_distance": [DHD_FIELD, call(T("dead_head_distance_of_segment")), call(T("dead_head_distance_of_new_nodes"))],
                           "costs": [field(TOUR, "costs"), call(T("costs_of_segment")), call(T("costs_of_new_nodes"))],
                           "useful_duration": [field(TOUR, "useful_duration"), call(ND("duration")), "param:2"],
                           "service_distance": [field(TOUR, "service_distance"), call(ND("travel_distance")), "param:2"],
                           "visits_maintenance": [field(TOUR, "visits_maintenance"), call(ND("is_maintenance")), "param:2"]},
    }
    for key, fields in table.items():
        fd = ctx.fd(key)
        sites = [c for c in fd.body.calls() if c.callee == common.TOUR_PRE] if fd is not None else []
        for fld, req in fields.items():
            o = ctx.ob("R3.%s.%s.sources" % (common.short(key), fld), "T9", key,
                       "%s derives the new %s from %s" % (common.short(key), fld, ", ".join(x.split("::")[-1] for x in req)))
            if fd is None or len(sites) != 1 or cm is None:
                o.status = "anchor-missing"
                o.detail = "construction site not found"
                continue
            op = sites[0].args[cm[fld] - 1]
            # short-circuit && / || turn data into control: the boolean flag is sliced with control dependence
            at = (fd.slice_operand_data(sites[0], op) if fld == "visits_maintenance" else fd.slice_operand_pure(sites[0], op))["atoms"]
            miss = missing_atoms(at, req)
            ctx.decide(o, not miss, "", "the new %s in %s does not derive from %s" % (fld, common.short(key), fmt_missing(miss)), loc=sites[0].line())


VIEWS = ("iter", "deref", "deref_mut", "as_slice", "as_ref", "borrow", "into_iter", "clone", "to_vec", "copied", "cloned")


def is_maintenance_scan(fd, c):
    """an Iterator::any whose predicate asks is_maintenance"""
    if not (c.decl == "core::iter::traits::iterator::Iterator::any" or (c.callee or "").endswith("::any")):
        return False
    cl = set()
    for a in c.args:
        cl |= fd.slice_operand_pure(c, a)["atoms"]
    return call(ND("is_maintenance")) in cl


def view_root(fd, op, stop=None):
    """the local a sequence operand is a *view* of: receiver chain through iter()/deref()/&/copies only (splice, drain,
    collect hand out OTHER nodes and end the chain with None)"""
    from ..facts import Operand
    cur = op
    guard = 0
    while cur is not None and cur.place is not None and guard < 12:
        guard += 1
        l = cur.place.local
        if l == stop:
            return l
        ds = [x for x in fd.defs.get(l, ()) if x.kind != "param"]
        if not ds:
            return l                       # a parameter
        if len(ds) != 1 and not all(x.kind == "call-mut" for x in ds[1:]):
            return l
        i3 = ds[0].instr
        if i3 is None:
            return l
        if i3.kind == "call" and i3.args:
            if (i3.callee or "").split("::")[-1] not in VIEWS:
                return None
            cur = i3.args[0]
        elif i3.kind == "assign" and i3.rv_kind() == "ref":
            cur = Operand({"k": "copy", "pl": {"l": i3.ref_place().local, "p": []}})
        elif i3.kind == "assign" and i3.rv_kind() in ("use", "cast") and i3.ops:
            cur = i3.ops[0]
        else:
            return l
    return None


def flag_truth_table(ctx, key, fd, site, cm, new_nodes):
    """the visits-maintenance flag handed to new_precomputed, as a function of (old flag, 'the removed nodes contain a slot',
    'the remaining nodes contain a slot'[, 'the inserted path contains a slot']): abstract interpretation of all paths"""
    from .. import optabs
    o = ctx.ob("R3.%s.visits-maintenance-truth-table" % common.short(key), "T1+abs", key,
               "%s: new flag = [inserted path has a slot or] old flag and (no slot removed or a slot remains)" % common.short(key))
    o.loc = site.line()
    scans = [c for c in fd.body.calls() if is_maintenance_scan(fd, c)]
    B = [c for c in scans if view_root(fd, c.args[0], stop=new_nodes) == new_nodes]
    rest = [c for c in scans if c not in B]
    # the inserted path's own scan (insert_path): the one whose sequence derives from the path parameter
    C = [c for c in rest if any(x.startswith("solution::path::Path::") for x in direct_chain(fd, c.args[0]))]
    A = [c for c in rest if c not in C]
    if len(B) != 1 or len(A) != 1 or len(C) > 1:
        ctx.undecided(o, "the scans over removed / remaining nodes are not in a recognised place (%d/%d/%d)" % (len(A), len(B), len(C)))
        return
    vi = cm["visits_maintenance"] - 1
    bad, und = [], []
    for c_ in (("T", "F") if C else (None,)):
        for v in "TF":
            for a in "TF":
                for b in "TF":
                    src = {A[0].id: a, B[0].id: b}
                    if C:
                        src[C[0].id] = c_
                    it = optabs.OptInterp(fd.body, src)
                    it.field_values = {field(TOUR, "visits_maintenance"): v}
                    it.probes = {site.id: vi}
                    it.run()
                    got = {r["probe"].get(site.id) for r in it.records if site.id in r["probe"]}
                    if v == "T" and a == "F" and b == "F":
                        continue        # cannot happen: a visited slot is either removed or remains
                    want = "T" if (c_ == "T" or (v == "T" and (a == "F" or b == "T"))) else "F"
                    case = "%sold flag %s, slot removed %s, slot remains %s" % (
                        ("path has a slot %s, " % c_) if C else "", v, a, b)
                    if not got or got - {"T", "F"}:
                        und.append(case)
                    elif got != {want}:
                        bad.append("%s => flag %s (must be %s)" % (case, "/".join(sorted(got)), want))
    if bad:
        ctx.bad(o, "; ".join(bad[:3]) + ": the maintenance counter of the tour loses or keeps its allowance wrongly", loc=site.line())
    elif und:
        ctx.undecided(o, "not decided for: %s" % "; ".join(und[:2]))
    else:
        ctx.ok(o, "all %d reachable cases as documented" % (14 if C else 7))


def recomputed_from_new_nodes(ctx):
    """whatever is recomputed from scratch, or scanned for maintenance, is computed on the NEW node sequence"""
    cm = prov.ctor_map(ctx.prog, common.TOUR_PRE, TOUR)
    for key in (T("replace_start_depot"), T("replace_end_depot"), T("insert_path")):
        fd = ctx.fd(key)
        if fd is None or cm is None:
            continue
        site = [c for c in fd.body.calls() if c.callee == common.TOUR_PRE]
        if len(site) != 1:
            continue
        nodes_op = site[0].args[cm["nodes"] - 1]
        new_nodes = root_local(fd, nodes_op.place.local) if nodes_op.place is not None else None
        for c in calls_to(fd, T("compute_dead_head_distance_of_nodes")):
            o = ctx.ob("R3.%s.recompute-on-new-nodes" % common.short(key), "T1", key,
                       "%s: the from-scratch recomputation runs on the new node sequence (the one stored in the result)" % common.short(key))
            o.loc = c.line()
            ls = fd.slice_operand_pure(c, c.args[0])["locals"]
            ctx.decide(o, new_nodes in ls, "argument is the new node vector",
                       "compute_dead_head_distance_of_nodes at %s is applied to a node sequence other than the one stored in the new tour "
                       "(e.g. the old self.nodes): the cache describes the old tour" % c.line(), loc=c.line())
    for key in (T("remove"), T("insert_path")):
        fd = ctx.fd(key)
        if fd is None or cm is None:
            continue
        site = [c for c in fd.body.calls() if c.callee == common.TOUR_PRE]
        if len(site) != 1:
            continue
        nodes_op = site[0].args[cm["nodes"] - 1]
        vm_op = site[0].args[cm["visits_maintenance"] - 1]
        new_nodes = root_local(fd, nodes_op.place.local) if nodes_op.place is not None else None
        o = ctx.ob("R3.%s.visits-maintenance-looks-at-remaining-nodes" % common.short(key), "T1", key,
                   "%s: the new visits-maintenance flag depends on the nodes that remain in the tour (a second slot may remain)" % common.short(key))
        o.loc = site[0].line()
        sl = fd.slice_operand_data(site[0], vm_op)
        scans = []
        for d in sl["defs"]:
            i2 = d.instr
            if i2 is None or i2.kind != "call":
                continue
            if is_maintenance_scan(fd, i2):
                if view_root(fd, i2.args[0], stop=new_nodes) == new_nodes:
                    scans.append(i2)
                continue
            # the flag may be computed by a private helper that is handed the new node vector
            sg = ctx.prog.sigs.get(i2.callee or "")
            if sg is not None and not sg.get("pub") and i2.callee in ctx.prog.bodies:
                for k2 in ctx.prog.family(i2.callee):
                    f2 = ctx.fd(k2)
                    if f2.body.is_closure:
                        continue
                    for c2 in f2.body.calls():
                        if is_maintenance_scan(f2, c2):
                            r = view_root(f2, c2.args[0])
                            if r is not None and 1 <= r <= f2.body.argc and r - 1 < len(i2.args) \
                                    and view_root(fd, i2.args[r - 1], stop=new_nodes) == new_nodes:
                                scans.append(c2)
        flag_truth_table(ctx, key, fd, site[0], cm, new_nodes)
        ctx.decide(o, bool(scans), "an is_maintenance scan over the new node vector feeds the flag",
                   "the visits-maintenance flag of the new tour does not look at the remaining nodes: removing/displacing one of two "
                   "maintenance slots clears (or keeps) the flag wrongly", loc=site[0].line())


def cost_delta_form(ctx, s_sites):
    """u64 cost deltas are applied as (running + new) - old, never as new - old"""
    TC = T("costs")
    for s in s_sites:
        fd = ctx.an.fd(s.fn)
        for ins in fd.body.instrs():
            if ins.kind != "assign" or ins.rv_kind() != "binop" or not ins.rv["op"].startswith("Sub") or not ins.rv.get("aty", "").startswith("u64"):
                continue
            rhs = fd.slice_operand_pure(ins, ins.ops[1])["atoms"]
            if call(TC) not in rhs:
                continue
            lhs = fd.slice_operand_pure(ins, ins.ops[0])["atoms"]
            o = ctx.ob("R3.%s.cost-delta-cannot-underflow#%s" % (common.short(s.fn), ins.bb), "T5", s.fn,
                       "%s: a tour's costs are subtracted from the running total, not from another tour's costs" % common.short(s.fn))
            o.loc = ins.line()
            ctx.decide(o, field(SCHEDULE, "costs") in lhs or "param:" in " ".join(a for a in lhs if a.startswith("param:") and a != "param:1"),
                       "minuend derives from the running total", "`new_tour.costs() - old_tour.costs()` at %s: unsigned subtraction of two tour "
                       "costs underflows whenever the new tour is cheaper" % ins.line(), loc=ins.line())


def componentwise_pair_updates(ctx):
    """the cached (unserved passengers, unserved seated) pair is updated component by component"""
    o, fd = ctx.require_fn("R5.unserved-pair-updated-componentwise", "T12", UTF,
                           "component k of the cached unserved pair is updated with component k of the per-node value")
    if fd is None:
        return
    seen = 0
    bad = []
    for ins in fd.body.instrs():
        if ins.kind != "assign" or not ins.place.has_deref() or ins.rv_kind() not in ("use",):
            continue
        tf = [p["i"] for p in ins.place.proj if p["k"] == "field" and p.get("tuple")]
        if len(tf) != 1:
            continue
        k = tf[0]
        # value = (old.k' +/- x.j) : the binop behind the stored value and the tuple components its operands read
        b = None
        if ins.ops and ins.ops[0].place is not None:
            ds = [d for d in fd.defs.get(ins.ops[0].place.local, ()) if d.kind != "param"]
            if len(ds) == 1:
                b = ds[0].instr
        if b is None or b.kind != "assign" or b.rv_kind() != "binop":
            continue
        idx = set()
        for op in b.ops:
            if op.place is None:
                continue
            t = [p["i"] for p in op.place.proj if p["k"] == "field" and p.get("tuple")]
            if t:
                idx.add(t[0])
                continue
            d2 = direct_def_instr(fd, op)
            if d2 is not None and d2.kind == "assign" and d2.rv_kind() == "use" and d2.ops and d2.ops[0].place is not None:
                t = [p["i"] for p in d2.ops[0].place.proj if p["k"] == "field" and p.get("tuple")]
                if t:
                    idx.add(t[0])
        if not idx:
            continue
        seen += 1
        if idx != {k}:
            bad.append((ins, k, idx))
    if seen < 4:
        ctx.undecided(o, "expected four component updates, recognised %d" % seen)
    else:
        ctx.decide(o, not bad, "%d updates, each reads its own component" % seen,
                   "component %d of the cached pair is updated with component %s of the per-node value at %s" % (
                       bad[0][1], sorted(bad[0][2]), bad[0][0].line()) if bad else "", loc=bad[0][0].line() if bad else None)


def formation_update_order(ctx):
    """R5: in update_train_formation the 'before' value is read before the formation is replaced, the 'after' value after"""
    o, fd = ctx.require_fn("R5.unserved-before-and-after", "T10", UTF,
                           "unserved passengers at a node are subtracted for the old formation and added for the new one")
    if fd is None:
        return
    # the bracketed insert may live in a private helper that holds the loop body
    host = None
    for f in hosts(ctx, UTF):
        if calls_to(f, S("compute_unserved_passengers_at_node")):
            host = f
            break
    if host is None:
        ctx.bad(o, "update_train_formation never evaluates compute_unserved_passengers_at_node")
        return
    fd = host
    cu = calls_to(fd, S("compute_unserved_passengers_at_node"))
    ins = [c for c in fd.body.calls() if (c.callee or "").endswith("HashMap::insert") and len(c.args) == 3]
    ok = len(cu) == 2 and len(ins) >= 1
    detail = "expected two compute_unserved_passengers_at_node calls around one insert, found %d/%d" % (len(cu), len(ins))
    if ok:
        i = ins[0]
        before = [c for c in cu if fd.cfg.instr_dominates(c, i) or c.bb in _preds_closure(fd, i.bb)]
        after = [c for c in cu if fd.cfg.instr_dominates(i, c)]
        ok = len(after) == 1 and len([c for c in cu if c not in after]) == 1
        detail = "one evaluation precedes the formation insert, one follows it" if ok else "the two evaluations do not bracket the formation insert"
    ctx.decide(o, ok, detail, detail)


def _preds_closure(fd, bb):
    seen = set()
    wl = [bb]
    while wl:
        b = wl.pop()
        for p in fd.cfg.pred[b]:
            if p not in seen:
                seen.add(p)
                wl.append(p)
    return seen


def tour_cache_rules(ctx, tag="R3"):
    """the rules about Tour's incrementally maintained figures (shared with C04, C08, C11)"""
    t_sites = common.sites_of(ctx, TOUR)
    infinity_guard(ctx, t_sites)
    source_sets(ctx)
    recomputed_from_new_nodes(ctx)
    from . import formulas
    formulas.tour_delta_signs(ctx, tag)
    formulas.depot_replacement_tests(ctx, tag)
    formulas.unit_agreement(ctx, tag)       # incremental helper and from-scratch definition price an unreachable hop in the same unit


def cycle_update_rules(ctx):
    """batched cycle updates and neighbour lookups (shared with C04, C10, C11, C15)"""
    from .C10 import cycles_follow_vehicles
    from .C15 import neighbour_wiring, counter_plain_sum, three_opt_reconnection
    before = len(ctx.obligations)
    cycles_follow_vehicles(ctx, None)
    ctx.obligations[before:] = [o for o in ctx.obligations[before:] if "batched-updates" in o.id]
    neighbour_wiring(ctx, "R3")
    three_opt_reconnection(ctx, "R3")
    counter_plain_sum(ctx, common.sites_of(ctx, TRANSITION))
    from . import formulas
    formulas.schedule_cost_signs(ctx, "R3")
    formulas.transition_total_signs(ctx, "R3")
    from .C16 import violation_of_argument
    violation_of_argument(ctx, "R3")           # the violation cached with freshly installed transitions
    formulas.cluster_loops(ctx, "R3")           # the from-scratch counters of the greedy clustering (new_fast)
    formulas.transition_formulas(ctx, "R3")
    formulas.transition_counter_deltas(ctx, "R3")
    common.bookkeeping_sees_new_maps(ctx, "R3", common.sites_of(ctx, SCHEDULE))


def rules(ctx):
    from .C15 import empty_cycle_bookkeeping
    before = len(ctx.obligations)
    empty_cycle_bookkeeping(ctx)     # a cycle that is handed out twice loses a vehicle's counter and violation from the totals
    for o_ in ctx.obligations[before:]:
        o_.id = o_.id.replace("C09/R", "C09/R3.cycles.R")
    s_sites = common.coupled_updates(ctx, "R1", SCHEDULE, common.SCHEDULE_PAIRS, floor=13)
    t_sites = common.coupled_updates(ctx, "R1", TOUR, common.TOUR_PAIRS, floor=5, exempt=common.TOUR_PAIR_EXEMPT)
    x_sites = common.coupled_updates(ctx, "R1", TRANSITION, common.TRANSITION_PAIRS, floor=6)
    common.lost_update_rule(ctx, "R2", SCHEDULE, s_sites)
    common.lost_update_rule(ctx, "R2", TOUR, t_sites)
    common.lost_update_rule(ctx, "R2", TRANSITION, x_sites)
    infinity_guard(ctx, t_sites)
    source_sets(ctx)
    recomputed_from_new_nodes(ctx)
    from . import formulas
    formulas.tour_delta_signs(ctx, "R3")
    formulas.depot_replacement_tests(ctx, "R3")
    formulas.unit_agreement(ctx, "R3")
    cost_delta_form(ctx, s_sites)
    formation_update_order(ctx)
    componentwise_pair_updates(ctx)
    cycle_update_rules(ctx)
    from . import order
    order.pair_order(ctx, "R3")
    order.depot_sides(ctx, "R6")
