"""C09 - cached aggregates equal recomputation after any modification history.

Decided statically: the *structure* of the incremental updates - which caches are
rebuilt together with the data they summarise (T2), that no update is computed and
then thrown away (T3), that the Infinity special case of Distance is guarded wherever a
delta is subtracted from the old value (T12), and ordering/source-set conditions.
Not decided: the arithmetic of the delta formulas.
"""
from .. import prov
from ..rulelib import *
from . import common

NOTE = ("Provenance classification of every construction site of Schedule, Tour and Transition over MIR "
        "(same / modified copy / fresh per field, all paths), coupled-update pairs, lost-update detection, "
        "Infinity-guard recogniser for Distance deltas, source-set agreement of delta helpers with the "
        "from-scratch definitions. Necessary structural conditions of cache consistency for all modification "
        "histories; the arithmetic inside the deltas is not decided.")

DIST = "model::base_types::distance::Distance"
DIST_SUB = "<%s as core::ops::arith::Sub>::sub" % DIST
DIST_EQ = "<%s as core::cmp::PartialEq>::eq" % DIST
DIST_NE = "<%s as core::cmp::PartialEq>::ne" % DIST
DHD_FIELD = field(TOUR, "dead_head_distance")

INF_EXEMPT = {
    T("remove"): "remove never changes a depot of a surviving tour (removing a depot is refused unless the "
                 "whole tour goes), so an infinite distance legitimately stays infinite",
}


def infinity_guard(ctx, sites):
    """R4: `old_dead_head_distance - x` must be decided on whether the old value is Infinity"""
    for s in sites:
        if s.fields["nodes"].kind == "same":
            continue
        fd = ctx.an.fd(s.fn)
        # the dead_head_distance operand of the construction
        cm = prov.ctor_map(ctx.prog, common.TOUR_PRE, TOUR)
        if s.kind != "ctor-call" or cm is None:
            continue
        op = s.instr.args[cm["dead_head_distance"] - 1]
        sl = fd.slice_operand_data(s.instr, op)
        subs = []
        for d in sl["defs"]:
            i = d.instr
            if i is not None and i.kind == "call" and i.callee == DIST_SUB:
                lhs = fd.slice_operand_data(i, i.args[0])
                if DHD_FIELD in lhs["atoms"] and not any(
                        dd.instr is not None and dd.instr.kind == "call" and dd.instr.callee == DIST_SUB
                        for dd in lhs["defs"]):
                    subs.append(i)
        if not subs:
            continue
        for n, i in enumerate(subs):
            o = ctx.ob("R4.%s.infinity-guard%s" % (common.short(s.fn), "" if len(subs) == 1 else "#%d" % n),
                       "T12", s.fn,
                       "%s: subtracting from the old dead-head distance is decided on it being Infinity"
                       % common.short(s.fn))
            o.loc = i.line()
            if s.fn in INF_EXEMPT:
                ctx.ok(o, "exempt: " + INF_EXEMPT[s.fn])
                continue
            ctrl = fd.slice(seed_blocks=[i.bb])
            guarded = False
            for sw in ctrl["switches"]:
                cs = fd.slice(seed_locals=fd.operand_uses(sw.ops[0]))
                if DHD_FIELD in cs["atoms"] and (call(DIST_EQ) in cs["atoms"] or call(DIST_NE) in cs["atoms"]
                                                 or any(dd.info.get("rk") == "discr" for dd in cs["defs"])):
                    guarded = True
            ctx.decide(o, guarded, "guarded by a comparison of self.dead_head_distance",
                       "`self.dead_head_distance - ...` at %s is not guarded by a test for Distance::Infinity, although "
                       "this function can replace the (infinitely distant) overflow depot; Infinity - x + y stays "
                       "Infinity (sibling producers guard it)" % i.line(), loc=i.line())


def rules(ctx):
    s_sites = common.coupled_updates(ctx, "R1", SCHEDULE, common.SCHEDULE_PAIRS, floor=13)
    t_sites = common.coupled_updates(ctx, "R1", TOUR, common.TOUR_PAIRS, floor=5, exempt=common.TOUR_PAIR_EXEMPT)
    x_sites = common.coupled_updates(ctx, "R1", TRANSITION, common.TRANSITION_PAIRS, floor=6)
    common.lost_update_rule(ctx, "R2", SCHEDULE, s_sites)
    common.lost_update_rule(ctx, "R2", TOUR, t_sites)
    common.lost_update_rule(ctx, "R2", TRANSITION, x_sites)
    infinity_guard(ctx, t_sites)
