"""C18 - HTTP service answers each request with its own solution and isolates failures.

Interleavings of in-flight requests, survival after a panicking handler and socket behaviour are
runtime properties of tokio/axum: not decidable statically and NOT claimed.  Decided: the route table,
that the body limit layer wraps the registered routes, that the solve handler answers with
solve_instance applied to its own request body, and that no state is shared between requests."""
from ..engine import run_controls
from ..rulelib import *
from . import purity

NOTE = ("Static facts about the HTTP front end from MIR of the server binary: constant route table (paths, methods, "
        "handlers resolved by callee), layer applied to the router that already carries the routes, handler result "
        "derived from server::solve_instance of the request's own body, and absence of shared mutable state in all "
        "workspace crates (no statics, no interior-mutable fields, no unsafe). Concurrency behaviour, fault isolation "
        "and socket handling are runtime properties and are NOT decided.")

MAIN = "bin:server::main::{closure#0}"
ROUTE = "axum::routing::Router::route"
LAYER = "axum::routing::Router::layer"
GET = "axum::routing::method_routing::get"
POST = "axum::routing::method_routing::post"
SERVE = "axum::serve::serve"


def fn_operand_name(fd, op):
    c = const_of_operand(fd, op)
    if c is not None and c.get("fn"):
        return c["fn"]["callee"]
    if op.place is not None:
        tk = fd.body.local_tk(op.place.local)
        if tk.get("k") == "fndef":
            return tk.get("p")
    return None


def rules(ctx):
    from .C03 import location_names_are_total
    location_names_are_total(ctx, "R5")  # a request whose answer uses the overflow depot is answered, not dropped
    # the instance that is solved is the one the request carried (loader rules shared with C17)
    from .C17 import loader_subset
    loader_subset(ctx, ["dead-head-matrix", "DeadHeadTrip-new", "Locations-new"])
    # the answer is a valid solution: the figures reported with the schedule are the schedule's own (the last pipeline step, the
    # end-depot alignment, goes through these incremental cycle updates on every request; shared with C15)
    from . import formulas as _fm
    _fm.transition_formulas(ctx, "R2")
    from .C12 import distance_sub_keeps_infinity
    distance_sub_keeps_infinity(ctx, "R5")      # a valid request that needs the overflow depot is answered, not dropped by a panic
    from .C09 import recomputed_from_new_nodes
    recomputed_from_new_nodes(ctx)              # ... and the distance / maintenance figures after the depots were re-assigned
    from .C07 import formation_getters
    formation_getters(ctx, "R2")                # the unserved passengers reported with the answer are those of its formations
    o, fd = ctx.require_fn("R1.route-table", "T7", MAIN, "GET /health -> healthy and POST /solve -> solve are registered")
    if fd is not None:
        routes = calls_to(fd, ROUTE)
        table = {}
        for r in routes:
            c = const_of_operand(fd, r.args[1])
            path = (c.get("s") or "").strip('"') if c else None
            mr = direct_def_instr(fd, r.args[2])
            method, handler = None, None
            if mr is not None and mr.kind == "call":
                method = {GET: "GET", POST: "POST"}.get(mr.callee, mr.callee)
                handler = fn_operand_name(fd, mr.args[0]) if mr.args else None
            table[path] = (method, handler)
        want = {"/health": ("GET", "server::healthy"), "/solve": ("POST", "server::solve")}
        ctx.decide(o, table == want, "routes: %s" % table, "route table is %s, expected %s" % (table, want),
                   loc=routes[0].line() if routes else None, sample={"routes": {k: list(v) for k, v in table.items() if k}})
        o = ctx.ob("R1.served-router-carries-routes-and-layer", "T4", MAIN,
                   "the router handed to axum::serve carries both routes, and the body-limit layer is applied on top of them")
        sv = calls_to(fd, SERVE)
        ly = calls_to(fd, LAYER)
        ok = len(sv) == 1 and len(routes) == 2
        detail = "expected one serve call and two routes"
        if ok:
            app = fd.slice_operand_pure(sv[0], sv[0].args[1])
            ok = all(any(d.instr is r for d in app["defs"]) for r in routes)
            detail = "a registered route does not reach axum::serve"
            if ok and ly:
                recv = fd.slice_operand_pure(ly[0], ly[0].args[0])
                ok = all(any(d.instr is r for d in recv["defs"]) for r in routes) and any(d.instr is ly[0] for d in app["defs"])
                detail = "the body-limit layer is applied before the routes are registered (axum layers wrap only earlier routes)"
        ctx.decide(o, ok, "serve(listener, router with /health, /solve%s)" % (" and layer" if ly else ""), detail,
                   loc=ly[0].line() if ly else None)
        # instances are large: the default 2 MB body limit of axum must be lifted, else a valid request is refused with 413
        o = ctx.ob("R1.body-limit-lifted", "T7", MAIN, "the served router lifts axum's default request-body limit (DefaultBodyLimit::disable or a larger max)")
        lim = [c for c in ly if any("DefaultBodyLimit" in t or "RequestBodyLimit" in t for t in c.targs)]
        if not ly:
            ctx.bad(o, "no layer is applied to the router: axum's default body limit of 2 MB applies, so a valid instance larger than that is answered with 413 instead of a solution")
        elif not lim:
            ctx.undecided(o, "a layer is applied but it is not recognised as a body-limit layer")
        else:
            src = fd.slice_operand_pure(lim[0], lim[0].args[1])["atoms"]
            dis = any(a.endswith("DefaultBodyLimit::disable") for a in src)
            mx = any(a.endswith("DefaultBodyLimit::max") for a in src)
            if dis or mx:
                ctx.ok(o, "DefaultBodyLimit::%s" % ("disable" if dis else "max"))
            else:
                ctx.undecided(o, "the body-limit layer is not built by disable()/max()")
    # the handler blocks its executor thread while it solves: with a single-threaded runtime /health and every other request stall
    o, fdm = ctx.require_fn("R4.multi-threaded-runtime", "T7", "bin:server::main", "the server runs on tokio's multi-threaded runtime")
    if fdm is not None:
        names = {(c.callee or "").split("::")[-1] for c in fdm.body.calls() if "tokio::runtime::builder::Builder::new_" in (c.callee or "")}
        if "new_current_thread" in names:
            ctx.bad(o, "the runtime is built with Builder::new_current_thread: the blocking solve handler occupies the only executor thread, "
                       "so GET /health and concurrent requests are not answered while an instance is solved")
        elif "new_multi_thread" in names:
            ctx.ok(o, "Builder::new_multi_thread")
        else:
            ctx.undecided(o, "runtime construction not recognised")
    o, fd = ctx.require_fn("R1.health-answer", "T7", "bin:server::healthy::{closure#0}", "healthy answers the constant \"Healthy\"")
    if fd is not None:
        consts = set()
        for d in fd.slice(seed_locals=[0], control=False)["defs"]:
            if d.instr is not None:
                for op in d.instr.ops:
                    if op.const is not None and op.const.get("s"):
                        consts.add(op.const["s"].strip('"'))
        ctx.decide(o, "Healthy" in consts, "returns \"Healthy\"", "returned constants: %s" % sorted(consts)[:5])
    o, fd = ctx.require_fn("R2.solve-answers-own-request", "T1", "bin:server::solve::{closure#0}",
                           "the solve handler answers with server::solve_instance applied to the request's own JSON body")
    if fd is not None:
        si = calls_to(fd, "server::solve_instance")
        rs = fd.slice(seed_locals=[0])
        ok = len(si) == 1 and any(d.instr is si[0] for d in rs["defs"])
        src = fd.slice_operand_pure(si[0], si[0].args[0])["atoms"] if si else set()
        others = sorted(a for a in src if a.startswith("call:") and not a.startswith(("call:core::", "call:alloc::", "call:std::")))
        ctx.decide(o, ok and not others and ("param:1" in src or "param:2" in src),
                   "response <- solve_instance(extracted body); nothing else feeds the argument",
                   "handler result does not come from solve_instance(own body) (other sources: %s)" % others)
    from .C16 import every_vehicle_type
    every_vehicle_type(ctx, "server::solve_instance", "R2.server")
    purity.no_global_state(ctx, "R3.no-global-state")
    purity.no_interior_mutability(ctx, "R3.no-interior-mutability")
    purity.no_unsafe(ctx, "R3.no-unsafe")
    must_depend(ctx, "R3.solve_instance-reads-its-input", "T1", "server::solve_instance", "ret",
                ["param:1", call("model::json_serialisation::load_rolling_stock_problem_instance_from_json")],
                "solve_instance's answer derives from its own input value")


def controls(ctx):
    return run_controls(purity.controls_specs()[:3])
