"""Generic order/side recognisers (T12, one-sided): consecutive pairs are handed to pair functions in tour
order; spawn sets are keyed by start depots and despawn sets by end depots.  Only recognised reversed forms are
reported; everything else is left alone."""
from ..rulelib import *

PAIR_FUNCS = {
    N("can_reach"): (1, 2), N("dead_head_time_between"): (1, 2), N("dead_head_distance_between"): (1, 2),
    N("idle_time_between"): (1, 2), N("minimal_duration_between_nodes"): (1, 2),
    T("dead_head_and_idle_costs_between_two_nodes"): (1, 2),
    "solution::json_serialisation::schedule_dead_head_trip": (0, 1),
}


def _tuple_indices(fd, ins, op):
    """tuple-field indices read on the way to this operand (pure data), per tuple local"""
    out = {}
    sl = fd.slice_operand_pure(ins, op)
    places = []
    if op.place is not None:
        places.append(op.place)
    for d in sl["defs"]:
        i = d.instr
        if i is None:
            continue
        for o in (i.ops if i.kind == "assign" else []):
            if o.place is not None:
                places.append(o.place)
        rp = i.ref_place() if i.kind == "assign" else None
        if rp is not None:
            places.append(rp)
    for p in places:
        for pr in p.proj:
            if pr["k"] == "field" and pr.get("tuple"):
                out.setdefault(p.local, set()).add(pr["i"])
                break
    return out


def _index_offset(fd, ins, op):
    """(base locals, offset) of an operand that is `v[i + c]` / `v[i - c]` / `v[i]` (through Index::index or MIR index)"""
    d = direct_def_instr(fd, op)
    guard = 0
    while d is not None and guard < 6:
        guard += 1
        if d.kind == "assign" and d.rv_kind() == "use" and d.ops and d.ops[0].place is not None:
            pl = d.ops[0].place
            idxl = pl.index_locals()
            if idxl:
                return _offset_of_local(fd, idxl[0])
            nd = direct_def_instr(fd, d.ops[0])
            if nd is None or nd is d:
                # *(&v[i]) : follow the reference
                if pl.has_deref():
                    ds = [x for x in fd.defs.get(pl.local, ()) if x.kind != "param"]
                    if len(ds) == 1:
                        d = ds[0].instr
                        continue
                return None
            d = nd
            continue
        if d.kind == "call" and (d.decl or "").endswith("ops::index::Index::index") and len(d.args) == 2:
            return _offset_of_operand(fd, d, d.args[1])
        return None
    return None


def _offset_of_local(fd, l):
    from ..facts import Operand
    return _offset_of_operand(fd, None, Operand({"k": "copy", "pl": {"l": l, "p": []}}))


def _offset_of_operand(fd, ins, op, depth=0):
    if op.const is not None:
        return (frozenset(), op.const_val() or 0)
    if op.place is None or not op.place.is_local or depth > 6:
        return None
    ds = [x for x in fd.defs.get(op.place.local, ()) if x.kind != "param"]
    if len(ds) != 1 or ds[0].kind != "assign":
        return (frozenset([op.place.local]), 0)
    i = ds[0].instr
    rk = i.rv_kind()
    if rk == "use":
        if i.ops[0].place is not None and i.ops[0].place.proj:
            # (_t.0) of a checked arithmetic result
            p = i.ops[0].place
            if p.proj[0]["k"] == "field" and p.proj[0].get("tuple") and p.proj[0]["i"] == 0:
                from ..facts import Operand
                return _offset_of_operand(fd, i, Operand({"k": "copy", "pl": {"l": p.local, "p": []}}), depth + 1)
            return (frozenset([op.place.local]), 0)
        return _offset_of_operand(fd, i, i.ops[0], depth + 1)
    if rk == "binop" and i.rv["op"] in ("Add", "AddWithOverflow", "AddUnchecked", "Sub", "SubWithOverflow", "SubUnchecked"):
        a = _offset_of_operand(fd, i, i.ops[0], depth + 1)
        c = i.ops[1].const_val()
        if a is not None and c is not None:
            return (a[0], a[1] + (c if i.rv["op"].startswith("Add") else -c))
    return (frozenset([op.place.local]), 0)


def pair_order(ctx, rid, crates=("solution", "solver"), only=None):
    n = 0
    for key, body in sorted(ctx.prog.bodies.items()):
        if body.crate not in crates or getattr(body, "test_unit", False) or "verify_consistency" in key:
            continue
        fd = None
        for c in body.calls():
            if c.callee not in PAIR_FUNCS:
                continue
            if only and c.callee not in only:
                continue
            i1, i2 = PAIR_FUNCS[c.callee]
            if len(c.args) <= i2:
                continue
            fd = fd or ctx.an.fd(key)
            a, b = c.args[i1], c.args[i2]
            verdict = None
            ta, tb = _tuple_indices(fd, c, a), _tuple_indices(fd, c, b)
            common_t = [l for l in ta if l in tb and len(ta[l]) == 1 and len(tb[l]) == 1 and ta[l] != tb[l]]
            if common_t:
                l = common_t[0]
                verdict = ("ok", "tuple elements %d, %d" % (min(ta[l]), min(tb[l]))) if min(ta[l]) < min(tb[l]) else \
                    ("bad", "the consecutive pair is passed as (second, first)")
            else:
                oa, ob = _index_offset(fd, c, a), _index_offset(fd, c, b)
                if oa is not None and ob is not None and oa[0] and oa[0] == ob[0] and oa[1] != ob[1]:
                    verdict = ("ok", "indices i%+d, i%+d" % (oa[1], ob[1])) if oa[1] < ob[1] else \
                        ("bad", "the neighbouring positions are passed as (later, earlier)")
            if verdict is None:
                continue
            n += 1
            o = ctx.ob("%s.%s.%s#%d.pair-in-tour-order" % (rid, fn_of_closure(key).split("::")[-1], c.callee.split("::")[-1], n), "T12", key,
                       "%s: %s receives the pair in tour order (earlier node first)" % (fn_of_closure(key).split("::")[-1], c.callee.split("::")[-1]))
            o.loc = c.line()
            ctx.decide(o, verdict[0] == "ok", verdict[1], "%s at %s: %s" % (c.callee.split("::")[-1], c.line(), verdict[1]), loc=c.line())
    o = ctx.ob("%s.pair-sites" % rid, "T8", "solution+solver", "call sites that pass a consecutive pair of nodes are recognised")
    ctx.decide(o, n >= 1, "%d sites" % n, "no consecutive-pair call site recognised")
    return n


def depot_sides(ctx, rid):
    """spawn sets (component 0 of a depot-usage entry) are edited under start depots, despawn sets (1) under end depots"""
    n = 0
    for key, body in sorted(ctx.prog.bodies.items()):
        if not key.startswith(SCHEDULE + "::") or getattr(body, "test_unit", False):
            continue
        fd = None
        for c in body.calls():
            if not (c.callee or "").startswith("im::hash::set::HashSet::") or c.callee.split("::")[-1] not in ("insert", "remove"):
                continue
            fd = fd or ctx.an.fd(key)
            r = direct_def_instr(fd, c.args[0])
            if r is None or r.kind != "assign" or r.rv_kind() != "ref":
                continue
            p = r.ref_place()
            tf = [pr["i"] for pr in p.proj if pr["k"] == "field" and pr.get("tuple")]
            if len(tf) != 1:
                continue
            side = tf[0]
            # the key the entry was looked up under: follow the direct chain entry/get_mut -> unwrap/or_insert -> &mut .k
            from ..facts import Operand
            keys = set()
            cur = direct_def_instr(fd, Operand({"k": "copy", "pl": {"l": p.local, "p": []}}))
            guard = 0
            while cur is not None and cur.kind == "call" and guard < 6:
                guard += 1
                nm = (cur.callee or "")
                if nm.startswith("im::hash::map::HashMap::") and nm.split("::")[-1] in ("get_mut", "entry", "get") and len(cur.args) >= 2:
                    keys = fd.slice_operand_pure(cur, cur.args[1])["atoms"]
                    break
                cur = direct_def_instr(fd, cur.args[0]) if cur.args else None
            has_s, has_e = call(T("start_depot")) in keys, call(T("end_depot")) in keys
            names = {fd.body.local_name(int(a[6:])) for a in keys if a.startswith("param:") and a[6:].isdigit()}
            if any(x and "start_depot" in x for x in names):
                has_s = True
            if any(x and "end_depot" in x for x in names):
                has_e = True
            if not (has_s or has_e):
                continue
            n += 1
            o = ctx.ob("%s.%s.%s#%d.depot-side" % (rid, key.split("::")[-1], c.callee.split("::")[-1], n), "T12", key,
                       "%s: the %s set of a depot is edited under the vehicle's %s depot" % (
                           key.split("::")[-1], "spawn" if side == 0 else "despawn", "start" if side == 0 else "end"))
            o.loc = c.line()
            bad = (side == 0 and has_e and not has_s) or (side == 1 and has_s and not has_e)
            ctx.decide(o, not bad, "component %d under %s depot" % (side, "start" if has_s else "end"),
                       "at %s the %s set is edited under the %s depot" % (c.line(), "spawn" if side == 0 else "despawn", "end" if side == 0 else "start"),
                       loc=c.line())
    o = ctx.ob("%s.depot-side-sites" % rid, "T8", SCHEDULE, "edits of the spawn/despawn sets are recognised (floor 8)")
    ctx.floor(o, n, 8, "spawn/despawn set edits")
    # readers
    key = S("number_of_vehicles_of_same_type_spawned_at_custom_usage")
    o, fd = ctx.require_fn("%s.spawn-count-reads-spawn-set" % rid, "T1", key, "the number of vehicles spawned at a depot is the size of the spawn set (component 0)")
    if fd is not None:
        idx = set()
        for k in ctx.prog.family(key):
            f2 = ctx.fd(k)
            for ins in f2.body.instrs():
                for op in ins.ops + ins.args:
                    if op.place is not None:
                        for pr in op.place.proj:
                            if pr["k"] == "field" and pr.get("tuple"):
                                idx.add(pr["i"])
                rp = ins.ref_place() if ins.kind == "assign" else None
                if rp is not None:
                    for pr in rp.proj:
                        if pr["k"] == "field" and pr.get("tuple"):
                            idx.add(pr["i"])
        ctx.decide(o, idx == {0}, "reads component 0 only", "reads component(s) %s of the usage entry" % sorted(idx))
