"""C15 - rotation-cycle bookkeeping is exact and its optimisation never worsens."""
from .. import prov
from ..rulelib import *
from ..rulelib import _closure_site
from . import common, objective
from .C06 import (guarded_arith, unlimited_search, strict_improver, PLS_WITH, LS_WITH, PMIN_IMPROVE, MIN_IMPROVE, UNWRAP_OR)

NOTE = ("Static conditions of exact cycle bookkeeping: closed producer set of Transition/TransitionCycle, coupled "
        "updates and lost-update detection over all Transition producers, agreement of the Infinity substitute in all "
        "distance-to-counter conversions, guarded arithmetic on cycle lengths, and the shape of the optimisation "
        "(objective order violation > counter, default strictly-improving minimisers without limits, candidates built "
        "only through move_vehicle/replace_cycle). Counter arithmetic and 3-opt's slice surgery are NOT decided.")

IN_METER = "model::base_types::distance::Distance::in_meter"
TLS = "solver::transition_local_search"
TSP = "solver::transition_cycle_tsp"
TN = "<%s::transition_neighborhood::TransitionNeighborhood as rapid_solve::heuristics::common::neighborhood::ParallelNeighborhood>::neighbors_of" % TLS


def inf_conversions(ctx, rid, floor=12):
    sites = []
    for key, body in ctx.prog.bodies.items():
        if body.crate != "solution" or getattr(body, "test_unit", False) or "verify_consistency" in key:
            continue
        fd = None
        for ins in body.calls():
            if ins.callee not in (UNWRAP_OR, "core::result::Result::unwrap_or"):
                continue
            fd = fd or ctx.an.fd(key)
            if direct_call_source(fd, ins.args[0]) == IN_METER:
                c = const_of_operand(fd, ins.args[1])
                sites.append((key, ins, int(c["val"]) if c is not None and "val" in c else None, (c or {}).get("s")))
    o = ctx.ob("%s.inf-substitute-agrees" % rid, "T7", TRANSITION,
               "every distance-to-counter conversion substitutes the same constant for an infinite distance")
    ctx.call_sites += len(sites)
    vals = {v for _, _, v, _ in sites}
    if not sites:
        ctx.floor(o, 0, floor, "conversion sites")
    elif len(vals) != 1 or None in vals:
        odd = [(k.split("::")[-1], i.line(), v) for k, i, v, _ in sites]
        ctx.bad(o, "conversion sites disagree: %s" % odd[:14], loc=sites[0][1].line())
    elif len(sites) < floor:
        ctx.floor(o, len(sites), floor, "conversion sites (all substitute %s)" % vals.pop())
    else:
        ctx.ok(o, "%d sites, all substitute %s" % (len(sites), vals.pop()),
               sample={"sites": sorted({k.split("::")[-1] for k, _, _, _ in sites})})


def counter_plain_sum(ctx, sites):
    """definition agreement: the violation total is a sum of positive parts, the counter total is a plain sum"""
    for st in sites:
        if st.self_param is None:
            continue
        fdx = ctx.an.fd(st.fn)
        ops = dict(zip(st.instr.rv["fields"], st.instr.ops)) if st.kind == "aggregate" else {}
        if not ops:
            continue
        cnt = fdx.slice_operand_pure(st.instr, ops["total_maintenance_counter"])
        vio = fdx.slice_operand_pure(st.instr, ops["total_maintenance_violation"])
        o = ctx.ob("R2.%s.counter-is-a-plain-sum" % common.short(st.fn), "T9", st.fn,
                   "%s: the total counter is updated without clamping, the total violation with positive parts" % common.short(st.fn))
        o.loc = st.instr.line()
        cmax = has_method(cnt["atoms"], "core::cmp::Ord::max")
        vmax = has_method(vio["atoms"], "core::cmp::Ord::max")
        if not vmax:
            # the positive part written out: `if c > 0 { c } else { 0 }`
            from .. import shape as _sh
            from .formulas import flatten as _flat
            ev = _sh.normalise(_sh.expr(fdx, ops["total_maintenance_violation"]))
            vmax = any(t[0] == "phi" and any(a[0] == "const" and str(a[1]).startswith("0") for a in t[1]) for _, t in _flat(ev))
        outer = direct_def_instr(fdx, ops["total_maintenance_violation"])
        if outer is not None and outer.kind == "call" and (outer.decl or outer.callee or "").endswith("::max"):
            ctx.bad(o, "the total violation is clamped once at the end (`(..).max(0)`) instead of summing the positive parts of each cycle: a cycle "
                       "with slack (negative counter) hides another cycle's violation", loc=st.instr.line())
            continue
        ctx.decide(o, vmax and not cmax and field(TRANSITION, "total_maintenance_counter") in cnt["atoms"]
                   and field(TRANSITION, "total_maintenance_violation") in vio["atoms"],
                   "violation uses max(0), counter does not",
                   ("the counter total is clamped with max(..): cycles with slack (negative counter) make every neighbour look better, the "
                    "transition search never terminates" if cmax else "the violation total is not built from positive parts / old totals"),
                   loc=st.instr.line())
    scratch_violation_is_a_sum_of_positive_parts(ctx)


def scratch_violation_is_a_sum_of_positive_parts(ctx, rid="R2"):
    """the from-scratch clustering: the violation total adds max(counter of THIS cycle, 0) per cycle; clamping the running total instead
    lets slack of one cycle pay for the excess of another"""
    key = TR("one_cluster_per_maintenance")
    o, fd0 = ctx.require_fn("%s.one_cluster_per_maintenance.violation-sums-positive-parts" % rid, "T12", key,
                            "the clustering adds max(cycle counter, 0) per cycle to the violation total (the clamped value is the cycle's own counter)")
    if fd0 is None:
        return
    seen, bad = 0, []
    for k in ctx.prog.family(key):
        b = ctx.prog.bodies[k]
        f = ctx.fd(k)
        if f is None:
            continue
        for c in b.calls():
            if not (c.decl or c.callee or "").endswith("::max") or len(c.args) != 2:
                continue
            if c.args[1].place is not None or c.args[1].const_val() != 0:
                continue
            seen += 1
            # the clamped value: a running total lives in the closure environment (captured by reference) or is read back from an accumulator
            a = c.args[0]
            d = direct_def_instr(f, a)
            via_env = False
            guard = 0
            while d is not None and d.kind == "assign" and d.rv_kind() == "use" and d.ops and d.ops[0].place is not None and guard < 6:
                guard += 1
                pl = d.ops[0].place
                if b.is_closure and pl.local == 1 and pl.proj:
                    via_env = True
                    break
                ds = [x for x in f.defs.get(pl.local, ()) if x.kind != "param" and x.instr is not None]
                d = ds[0].instr if len(ds) == 1 else None
            if a.place is not None and b.is_closure and a.place.local == 1 and a.place.proj:
                via_env = True
            if via_env:
                bad.append(c)
    # ... or at the very end: the violation field of the result is max(total, 0)
    for k in ctx.prog.family(key):
        f = ctx.fd(k)
        if f is None:
            continue
        for i in f.body.instrs():
            if i.kind == "assign" and i.rv_kind() == "agg" and i.rv.get("adt") == TRANSITION and "total_maintenance_violation" in (i.rv.get("fields") or []):
                op = i.ops[i.rv["fields"].index("total_maintenance_violation")]
                d = direct_def_instr(f, op)
                if d is not None and d.kind == "call" and (d.decl or d.callee or "").endswith("::max"):
                    seen += 1
                    bad.append(d)
    if bad:
        ctx.bad(o, "max(.., 0) at %s clamps an accumulator captured from the enclosing function (the running total), not the counter of the "
                "cycle at hand: a cycle with slack hides another cycle's violation in the cached total" % bad[0].line(), loc=bad[0].line())
    elif seen:
        ctx.ok(o, "%d positive part(s), each of a per-cycle value" % seen)
    else:
        ctx.undecided(o, "no max(.., 0) found in the clustering")


def three_opt_reconnection(ctx, rid):
    from . import formulas as _fm
    _fm.three_opt_details(ctx, rid)
    _three_opt_reconnection(ctx, rid)


def _three_opt_reconnection(ctx, rid):
    """3-opt on a cycle removes the transfers (i,i+1), (j,j+1), (k,k+1) and adds (i,j+1), (j,k+1), (k,i+1): decided on
    which of the parameters i, j, k each depot operand of the six distance look-ups derives from"""
    key = TCYCLE + "::three_opt"
    o, fd = ctx.require_fn("%s.three-opt-reconnection" % rid, "T12", key,
                           "3-opt subtracts the depot transfers after i, j, k and adds the transfers i->j+1, j->k+1, k->i+1")
    if fd is None:
        return
    dh = calls_to(fd, N("dead_head_distance_between"))
    if len(dh) != 6:
        ctx.undecided(o, "expected six dead_head_distance_between calls, found %d" % len(dh))
        return

    def tag(c, ai):
        at = fd.slice_operand_pure(c, c.args[ai])["atoms"]
        ps = sorted(int(a[6:]) for a in at if a.startswith("param:") and a[6:] in ("2", "3", "4"))
        return ps[0] if len(ps) == 1 else None
    removed, added, unknown = set(), set(), []
    for ins in fd.body.instrs():
        if ins.kind != "assign" or ins.rv_kind() != "binop" or not ins.rv.get("aty", "").startswith("i64"):
            continue
        op = ins.rv["op"]
        if not (op.startswith("Add") or op.startswith("Sub")):
            continue
        sl = fd.slice_operand_pure(ins, ins.ops[1])
        mine = [c for c in dh if any(d.instr is c for d in sl["defs"])]
        if len(mine) != 1:
            continue
        c = mine[0]
        pair = (tag(c, 1), tag(c, 2))
        if None in pair:
            unknown.append(c)
        elif op.startswith("Sub"):
            removed.add(pair)
        else:
            added.add(pair)
    want_removed, want_added = {(2, 2), (3, 3), (4, 4)}, {(2, 3), (3, 4), (4, 2)}
    names = {2: "i", 3: "j", 4: "k"}
    fmt = lambda s: sorted("%s->%s+1" % (names[a], names[b]) for a, b in s)
    if unknown:
        ctx.undecided(o, "depot operands not attributable to i/j/k at %s" % unknown[0].line())
    else:
        ctx.decide(o, removed == want_removed and added == want_added, "removed %s, added %s" % (fmt(removed), fmt(added)),
                   "3-opt removes %s and adds %s; it must remove %s and add %s (the cycle's counter no longer matches its vehicle order, and the "
                   "cycle search can oscillate forever)" % (fmt(removed), fmt(added), fmt(want_removed), fmt(want_added)), loc=dh[0].line())


def neighbour_wiring(ctx, rid):
    """the predecessor's end depot and the successor's start depot are looked up under their own keys"""
    key = TR("end_depot_of_predecessor_and_start_depot_of_successor")
    o, fd = ctx.require_fn("%s.neighbour-depots-use-own-keys" % rid, "T1", key,
                           "the predecessor's end depot is read from the predecessor's tour only, the successor's start depot from the successor's tour only")
    if fd is None:
        return
    names = {fd.body.local_name(l): l for l in range(len(fd.body.locals)) if fd.body.local_name(l)}
    if "predecessor" not in names or "successor" not in names:
        ctx.undecided(o, "locals `predecessor` / `successor` not found (renamed?)")
        return
    tup = [i for i in fd.body.instrs() if i.kind == "assign" and i.place.local == 0 and i.rv_kind() == "agg" and i.rv.get("ak") == "tuple" and len(i.ops) == 2]
    if len(tup) != 1:
        ctx.undecided(o, "returned pair not recognised")
        return
    e0 = fd.slice_operand_pure(tup[0], tup[0].ops[0])
    e1 = fd.slice_operand_pure(tup[0], tup[0].ops[1])
    ok0 = call(T("end_depot")) in e0["atoms"] and names["predecessor"] in e0["locals"] and names["successor"] not in e0["locals"]
    ok1 = call(T("start_depot")) in e1["atoms"] and names["successor"] in e1["locals"] and names["predecessor"] not in e1["locals"]
    both_maps = all("param:3" in e["atoms"] and "param:4" in e["atoms"] for e in (e0, e1))
    if ok0 and ok1 and not both_maps:
        ctx.bad(o, "a neighbour's depot is not looked up in the tours already updated in this batch first and the old tours second: a neighbour "
                   "updated earlier in the same batch is read with its stale depot", loc=tup[0].line())
        return
    ctx.decide(o, ok0 and ok1, "(end_depot(tour of predecessor), start_depot(tour of successor))",
               "the %s is looked up with the other neighbour's key: during batched updates the depot-to-depot distance of the cycle is "
               "computed from the wrong tour" % ("successor's start depot" if ok0 else "predecessor's end depot"), loc=tup[0].line())


def empty_cycle_bookkeeping(ctx, sites=None):
    """adding / removing a vehicle keeps cycles, the vehicle lookup and the free-list of empty cycles in step (shared with C10)"""
    if sites is None:
        sites = common.sites_of(ctx, TRANSITION)
    # functions that add or remove a vehicle change the lookup
    for fn in ("add_vehicle_to_own_cycle", "remove_vehicle", "add_vehicle_at_the_end"):
        ss = [s for s in sites if s.fn == TR(fn)]
        o = ctx.ob("R2.%s.lookup-and-empty-list-updated" % fn, "T2", TR(fn),
                   "%s rebuilds cycles, the vehicle lookup and the list of empty cycles" % fn)
        if not ss:
            o.status = "anchor-missing"
            o.detail = "no construction site in %s" % fn
            continue
        row = ss[0].row()
        bad = [f for f in ("cycles", "cycle_lookup", "empty_cycles") if ss[0].fields[f].kind == "same"]
        ctx.decide(o, not bad, "cycles/cycle_lookup/empty_cycles all rebuilt",
                   "%s inherits %s unchanged from self" % (fn, ", ".join(bad)), loc=ss[0].instr.line(), sample=row)
    # a vehicle that joins a cycle is entered into the lookup on every path (also when an empty cycle is reused)
    for fn in ("add_vehicle_to_own_cycle", "add_vehicle_at_the_end"):
        ss = [s for s in sites if s.fn == TR(fn)]
        if not ss or "cycle_lookup" not in ss[0].fields:
            continue
        o = ctx.ob("R2.%s.lookup-written-on-every-path" % fn, "T2", TR(fn), "%s: every path to the result enters the vehicle into cycle_lookup" % fn)
        s0 = ss[0]
        fdx_ = ctx.an.fd(TR(fn))
        ws = {w.instr.bb for w in s0.fields["cycle_lookup"].writes if w.instr is not None}
        if not ws:
            ctx.undecided(o, "no write to the lookup recognised")
            continue
        seen_, wl_ = set(), [0]
        reached = False
        while wl_:
            b_ = wl_.pop()
            if b_ in seen_ or b_ in ws:
                continue
            seen_.add(b_)
            if b_ == s0.instr.bb:
                reached = True
                break
            wl_.extend(fdx_.cfg.succ[b_])
        ctx.decide(o, not reached, "%d write(s), one on every path" % len(ws),
                   "the result of %s can be reached without a write to cycle_lookup: the vehicle sits in a cycle the lookup does not know, and the "
                   "next update of that vehicle unwraps None" % fn, loc=s0.instr.line())
    # the empty-cycle entry removed is the one of the cycle being filled
    o, fdx = ctx.require_fn("R3.add_vehicle_at_the_end.removes-own-empty-entry", "T1", TR("add_vehicle_at_the_end"),
                            "add_vehicle_at_the_end removes exactly the entry of the target cycle from the list of empty cycles")
    if fdx is not None:
        ok = False
        for l in range(len(fdx.body.locals)):
            c = prov.classify_local(fdx, l, 1)
            if c.kind == "changed" and c.field == ("empty_cycles",):
                for w in c.writes:
                    sl = fdx.slice(seed_defs=[w], control=False)
                    if "param:3" in sl["atoms"]:
                        ok = True
        # the retain predicate keeps the entries that differ from the target
        cmp_ops = set()
        for k2 in ctx.prog.family(TR("add_vehicle_at_the_end")):
            f2 = ctx.fd(k2)
            if not f2.body.is_closure:
                continue
            _, agg, users = _closure_site(ctx.an, k2)
            if any((u.callee or "").endswith("::retain") for u in users):
                for i2 in f2.body.instrs():
                    if i2.kind == "assign" and i2.rv_kind() == "binop" and i2.rv["op"] in ("Eq", "Ne"):
                        cmp_ops.add(i2.rv["op"])
        if ok and cmp_ops == {"Eq"}:
            ctx.bad(o, "retain keeps only the entry of the target cycle (`==`) instead of dropping it (`!=`)")
        else:
            ctx.decide(o, ok, "the write to empty_cycles depends on new_cycle_idx",
                       "the entry removed from empty_cycles does not depend on the target cycle index (e.g. pop()): a still-empty cycle is "
                       "forgotten and an occupied one stays listed as reusable")


def rules(ctx):
    common.who_may_construct(ctx, "R1.transition-producers", TRANSITION, [TRANSITION + "::*"],
                             "Transition values are built only inside impl Transition")
    common.who_may_construct(ctx, "R1.cycle-producers", TCYCLE, [TCYCLE + "::*"],
                             "TransitionCycle values are built only inside impl TransitionCycle")
    common.who_may_call(ctx, "R1.cycle-new-callers", TCYCLE + "::new", [TRANSITION + "::", TCYCLE + "::"],
                        "TransitionCycle::new is called only from the transition module", floor=5)
    sites = common.coupled_updates(ctx, "R2", TRANSITION, common.TRANSITION_PAIRS, floor=6)
    empty_cycle_bookkeeping(ctx, sites)
    common.lost_update_rule(ctx, "R3", TRANSITION, sites)
    counter_plain_sum(ctx, sites)
    neighbour_wiring(ctx, "R3")
    three_opt_reconnection(ctx, "R3")
    from . import formulas
    formulas.transition_formulas(ctx, "R3")
    formulas.transition_total_signs(ctx, "R3")
    formulas.three_opt_indices(ctx, "R3")
    formulas.transition_counter_deltas(ctx, "R3")
    formulas.cluster_loops(ctx, "R1")
    inf_conversions(ctx, "R4")
    # every vehicle type has its transition optimised and stored (shared with C16): set_next_day_transitions replaces the whole map
    from .C16 import every_vehicle_type
    for key_, tag_ in (("server::solve_instance", "R6.server"), ("internal::run", "R6.internal")):
        every_vehicle_type(ctx, key_, tag_)
    # R5: optimisation never worsens
    objective.level_order(ctx, "R5.transition-objective", TLS + "::transition_objective",
                          ["MaintenanceViolationIndicator", "MaintenanceCounterIndicator"],
                          "transition objective levels are, in order: maintenance violation, maintenance counter")
    objective.indicator_reads(ctx, "R5.violation-indicator", TLS + "::transition_objective", "MaintenanceViolationIndicator",
                              TR("maintenance_violation"), "the violation level reads Transition::maintenance_violation")
    objective.indicator_reads(ctx, "R5.counter-indicator", TLS + "::transition_objective", "MaintenanceCounterIndicator",
                              TR("maintenance_counter"), "the counter level reads Transition::maintenance_counter")
    objective.level_order(ctx, "R5.cycle-objective", TSP + "::transition_cycle_objective", ["MaintenanceCounterIndicator"],
                          "the 3-opt objective is the cycle's maintenance counter")
    objective.indicator_reads(ctx, "R5.cycle-counter-indicator", TSP + "::transition_cycle_objective", "MaintenanceCounterIndicator",
                              TCYCLE + "::maintenance_counter", "the 3-opt level reads TransitionCycle::maintenance_counter")
    must_depend(ctx, "R5.total-violation-getter", "T1", TR("maintenance_violation"), "ret", [field(TRANSITION, "total_maintenance_violation")],
                "maintenance_violation returns the cached total violation")
    must_depend(ctx, "R5.total-counter-getter", "T1", TR("maintenance_counter"), "ret", [field(TRANSITION, "total_maintenance_counter")],
                "maintenance_counter returns the cached total counter")
    unlimited_search(ctx, "R5", TLS + "::build_transition_local_search_solver", PLS_WITH, "transition local search")
    unlimited_search(ctx, "R5", TSP + "::build_transition_cycle_tsp_solver", LS_WITH, "cycle 3-opt search")
    strict_improver(ctx, "R5", PMIN_IMPROVE)
    strict_improver(ctx, "R5", MIN_IMPROVE)
    # candidates of the transition neighbourhood are built through the bookkeeping API only
    o, fd = ctx.require_fn("R5.neighbourhood-uses-api", "T1", TN,
                           "transition candidates are produced by move_vehicle / replace_cycle on the given transition")
    if fd is not None:
        at = fd.ret_slice()["atoms"]
        miss = missing_atoms(at, [call(TR("move_vehicle")), call(TR("replace_cycle")), "param:2"])
        ctx.decide(o, not miss, "candidates derive from move_vehicle and replace_cycle", "candidates do not derive from %s" % fmt_missing(miss))
    must_depend(ctx, "R5.move-is-remove-then-add", "T1", TR("move_vehicle"), "ret",
                [call(TR("remove_vehicle")), call(TR("add_vehicle_at_the_end")), "param:2", "param:3"],
                "move_vehicle = remove_vehicle followed by add_vehicle_at_the_end on the result")
    o, fd = ctx.require_fn("R5.move-chains-on-intermediate", "T4", TR("move_vehicle"),
                           "add_vehicle_at_the_end is applied to the transition returned by remove_vehicle")
    if fd is not None:
        a = calls_to(fd, TR("add_vehicle_at_the_end"))
        ok = len(a) == 1 and slice_has_call_def(arg_slice(fd, a[0], 0, control=False), TR("remove_vehicle")) is not None
        ctx.decide(o, ok, "receiver is remove_vehicle's result", "receiver of add_vehicle_at_the_end is not remove_vehicle's result")
    guarded_arith(ctx, "R6")
    from .C10 import cycles_follow_vehicles
    before = len(ctx.obligations)
    cycles_follow_vehicles(ctx, None)
    ctx.obligations[before:] = [o for o in ctx.obligations[before:] if "batched-updates" in o.id]
