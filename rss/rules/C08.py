"""C08 - local search only improves, in the documented priority order, up to a fixpoint."""
from ..rulelib import *
from . import objective
from .C06 import unlimited_search, strict_improver, PLS_WITH, PMIN_IMPROVE
from .C16 import SOLVE, SWI_NEW, IMPROVE, MCF

NOTE = ("Static shape of the search: level order and coefficients of the objective (compiler-evaluated constants and "
        "aggregate provenance), the default strictly-improving minimiser without time/iteration limit (None operands, "
        "acceptance comparison and edge read from rapid_solve's MIR), the search started from the improved "
        "min-cost-flow solution, the neighbourhood chaining all four swap families. The trajectory and the fixpoint "
        "as executions are NOT decided; the runtime hook suggested by the property is deliberately not used.")

NEIGH = "solver::local_search::neighborhood"
PN = "<%s::RSSchedParallelNeighborhood as rapid_solve::heuristics::common::neighborhood::ParallelNeighborhood>::neighbors_of" % NEIGH
SWAPS = ["SpawnVehicleForMaintenance", "PathExchange", "AddTripForHitchHiking", "RemoveSingleNode"]


def rules(ctx):
    objective.level_order(ctx, "R1")
    unlimited_search(ctx, "R2", "solver::local_search::build_local_search_solver", PLS_WITH, "schedule local search")
    o, fd = ctx.require_fn("R2.objective-used", "T1", "solver::local_search::build_local_search_solver",
                           "the search minimises objective::build()")
    if fd is not None:
        w = calls_to(fd, PLS_WITH)
        ok = len(w) == 1 and call("solver::objective::build") in arg_slice(fd, w[0], 1, control=False)["atoms"] \
            and call(NEIGH + "::RSSchedParallelNeighborhood::new") in arg_slice(fd, w[0], 0, control=False)["atoms"]
        ctx.decide(o, ok, "objective operand comes from objective::build, neighbourhood from RSSchedParallelNeighborhood::new",
                   "with_options is not given objective::build() / the RSSched neighbourhood")
    for key, tag in (("server::solve_instance", "server"), ("internal::run", "internal")):
        o, fd = ctx.require_fn("R3.%s.search-starts-from-start-solution" % tag, "T4", key,
                               "the local search starts from the depot-improved min-cost-flow solution")
        if fd is None:
            continue
        s = calls_to(fd, SOLVE, "ScheduleWithInfo")
        ok = False
        for ins in s:
            sl = arg_slice(fd, ins, 1)
            if slice_has_call_def(sl, SWI_NEW) and slice_has_call_def(sl, IMPROVE) and slice_has_call_def(sl, MCF):
                ok = True
        ctx.decide(o, ok, "solve(start) <- ScheduleWithInfo::new <- improve_depots <- MinCostFlowSolver::solve",
                   "the search's start argument does not come from improve_depots(min-cost-flow solution)")
        o = ctx.ob("R3.%s.branch-on-maintenance-only" % tag, "T1", key,
                   "whether the search runs is decided on maintenance_considered only")
        if s:
            ctrl = fd.slice(seed_blocks=[s[0].bb])
            srcs = []
            for sw in ctrl["switches"]:
                d = direct_def_instr(fd, sw.ops[0])
                while d is not None and d.kind == "assign" and d.rv_kind() == "unop" and d.ops:
                    d = direct_def_instr(fd, d.ops[0])
                srcs.append(d.callee if d is not None and d.kind == "call" else "<%s at %s>" % (d.kind if d else "?", sw.line()))
            other = [x for x in srcs if x != N("maintenance_considered")]
            ctx.decide(o, N("maintenance_considered") in srcs and not other, "controlled by maintenance_considered only",
                       "the search is controlled by %s" % (", ".join(str(x) for x in srcs) or "nothing"))
        else:
            ctx.bad(o, "no local-search solve call found")
    from .C07 import unserved_is_a_sum
    from .C09 import tour_cache_rules
    unserved_is_a_sum(ctx, "R1")
    objective.indicators(ctx, "R1")
    # R5: the values the search compares are the true values of the candidates (rule group shared with C09)
    tour_cache_rules(ctx)
    must_depend(ctx, "R3.unserved-definition", "T1", S("compute_unserved_passengers_at_node"), "ret",
                [call(N("passengers_of")), call(N("seated_passengers_of")), call(TRAINF + "::capacity"), call(TRAINF + "::seats"), "param:2", "param:3"],
                "unserved passengers at a node compare demand with the formation's capacity and seats")
    from .C07 import formation_getters
    formation_getters(ctx, "R3")
    from .C09 import cycle_update_rules
    cycle_update_rules(ctx)     # the maintenance violation the search compares is maintained truthfully as well
    strict_improver(ctx, "R4", PMIN_IMPROVE)
    # every vehicle is tried as provider of a path exchange (the rotation by the last provider only reorders)
    SEI = NEIGH + "::RSSchedParallelNeighborhood::segment_exchange_iterator"
    o, fd = ctx.require_fn("R4.all-providers-enumerated", "T1", SEI,
                           "the path-exchange enumeration runs over all dummy and real vehicles as providers (no skip/take/filter on them)")
    if fd is not None:
        fm = [c for c in fd.body.calls() if (c.callee or "").endswith("::flat_map") or (c.decl or "").endswith("::flat_map")]
        outer = [c for c in fm if call(NEIGH + "::RSSchedParallelNeighborhood::dummy_and_real_vehicles") in fd.slice_operand_pure(c, c.args[0])["atoms"]]
        if not outer:
            ctx.undecided(o, "outer flat_map over the providers not recognised")
        else:
            nar = narrowing_calls(fd, outer[0], 0)
            # in-place edits of the provider vector: only reordering is allowed
            SHRINK = ("::drain", "::truncate", "::split_off", "::retain", "::pop", "::remove", "::swap_remove", "::clear", "::dedup")
            for l in range(len(fd.body.locals)):
                if "Vec<model::base_types::VehicleIdx>" in fd.body.local_ty(l):
                    for d in fd.defs.get(l, ()):
                        if d.kind == "call-mut" and d.instr is not None and any((d.instr.callee or "").endswith(x) for x in SHRINK):
                            nar.append(d.instr)
            ctx.decide(o, not nar, "providers.into_par_iter() feeds flat_map directly",
                       "the provider sequence is narrowed by %s at %s before the exchange candidates are generated: vehicles in front of the "
                       "last provider are never offered, so the search can stop at a schedule it could still improve" % (
                           (nar[0].callee or "").split("::")[-1], nar[0].line()) if nar else "", loc=nar[0].line() if nar else None)
    # neighbourhood chains all swap families
    o, fd = ctx.require_fn("R4.neighbourhood-complete", "T1", PN, "the neighbourhood offers all four swap families")
    if fd is not None:
        at = fd.ret_slice()["atoms"]
        fam = {s: any(("::%s" % s) in a or ("::%s::" % s) in a for a in at if a.startswith(("agg:", "call:"))) for s in SWAPS}
        miss = [s for s, v in fam.items() if not v]
        ctx.decide(o, not miss, "all of %s reach the returned iterator" % ", ".join(SWAPS),
                   "swap families missing from the returned iterator: %s" % ", ".join(miss))
