"""C07 - passenger demand is covered as far as formation limits allow."""
from ..rulelib import *
from . import common, flownet, objective
from .C02 import limit_combination

NOTE = ("Static wiring of demand coverage: the trip edge's lower bound derives from the required vehicle count and the "
        "applicable (per-trip) formation limit, the requirement function uses passengers/capacity and seated/seats, the "
        "unserved-passenger level is first in the objective and sums both deficits, and every post-search stage leaves "
        "formations and the unserved counters untouched. Equality of the value with the instance's lower bound is a runtime "
        "quantity and is NOT decided.")

VT = "model::vehicle_types::VehicleType"
ST = "model::network::nodes::ServiceTrip"
REQ = N("number_of_vehicles_required_to_serve")
MFC = N("maximal_formation_count_for")


def unserved_is_a_sum(ctx, rid):
    """the unserved indicator sums both deficits"""
    o, fd3 = ctx.require_fn("%s.unserved-is-a-sum" % rid, "T1", objective.IND("UnservedPassengersIndicator"),
                            "unserved passengers = passengers not fitting + passengers not seated (a sum)")
    if fd3 is not None:
        ok = False
        for d in fd3.slice(seed_locals=[0], control=False)["defs"]:
            i = d.instr
            if i is not None and i.kind == "assign" and i.rv_kind() == "binop" and i.rv["op"] in ("Add", "AddWithOverflow", "AddUnchecked"):
                idx = []
                for op in i.ops:
                    s = set()
                    if op.place is not None:
                        for dd in fd3.slice(seed_locals=fd3.operand_uses(op), control=False)["defs"]:
                            if dd.instr is not None and dd.instr.kind == "assign":
                                for o2 in dd.instr.ops:
                                    if o2.place is not None:
                                        for p in o2.place.proj:
                                            if p["k"] == "field" and p.get("tuple"):
                                                s.add(p["i"])
                        for p in op.place.proj:
                            if p["k"] == "field" and p.get("tuple"):
                                s.add(p["i"])
                    idx.append(s)
                if len(idx) == 2 and ((idx[0] == {0} and idx[1] == {1}) or (idx[0] == {1} and idx[1] == {0})):
                    ok = True
        ctx.decide(o, ok, "component 0 + component 1", "the two deficit components are not added (e.g. combined with max)")


def formation_getters(ctx, rid="R2"):
    """the formation's seats are the sum of its vehicles' seats, its capacity the sum of their capacities (shared with C04)"""
    VEH = "solution::vehicle::Vehicle"
    for fn, own, other in (("seats", "seats", "capacity"), ("capacity", "capacity", "seats")):
        key = TRAINF + "::" + fn
        o, fd = ctx.require_fn("%s.formation-%s-sums-%s" % (rid, fn, own), "T1", key, "TrainFormation::%s sums Vehicle::%s" % (fn, own))
        if fd is None:
            continue
        direct = set()
        for k2 in ctx.prog.family(key):
            direct |= {c.callee for c in ctx.prog.bodies[k2].calls()}
        if VEH + "::" + other in direct and VEH + "::" + own not in direct:
            ctx.bad(o, "TrainFormation::%s adds up Vehicle::%s: the %s shortfall that the objective minimises is computed from the wrong figure" % (
                fn, other, "seated-passenger" if fn == "seats" else "passenger"))
        elif VEH + "::" + own in direct:
            ctx.ok(o, "sums Vehicle::%s" % own)
        else:
            ctx.undecided(o, "no direct call of a Vehicle figure")
    # a vehicle reports the figures of its own type, each under its own name
    vt = VT
    for fn, other in (("seats", "capacity"), ("capacity", "seats")):
        getter(ctx, "%s.vehicle-%s-is-its-types-%s" % (rid, fn, fn), VEH + "::" + fn, [call(vt + "::" + fn)], [call(vt + "::" + other)],
               text="Vehicle::%s returns its type's %s" % (fn, fn))


def required_vehicles_pairing(ctx, rid="R2"):
    """shared with C14 (the lower bound of a trip arc)"""
    # requirement function: per-quantity pairing passengers/capacity, seated/seats
    o, fd2 = ctx.require_fn("%s.required-vehicles-pairing" % rid, "T1", REQ,
                            "required vehicles = max(ceil(passengers / capacity), ceil(seated / seats))")
    if fd2 is not None:
        divs = [c for c in fd2.body.calls() if c.callee and c.callee.endswith("::div_ceil")]
        pairs = set()
        for c in divs:
            a = fd2.slice_operand_pure(c, c.args[0])["atoms"]
            b = fd2.slice_operand_pure(c, c.args[1])["atoms"]
            num = "passengers" if call(ST + "::passengers") in a else ("seated" if call(ST + "::seated") in a else "?")
            den = "capacity" if call(VT + "::capacity") in b else ("seats" if call(VT + "::seats") in b else "?")
            pairs.add((num, den))
        rs = fd2.ret_slice()["atoms"]
        # combined with max: Ord::max, or the larger one selected by an explicit comparison of the two quotients
        combined = has_method(rs, "core::cmp::Ord::max")
        form = "max"
        if not combined and len(divs) == 2:
            dl = {c.dest.local for c in divs if c.dest is not None}
            for ins in fd2.body.instrs():
                cmp_ops = None
                if ins.kind == "assign" and ins.rv_kind() == "binop" and ins.rv["op"] in ("Lt", "Le", "Gt", "Ge"):
                    cmp_ops = ins.ops
                elif ins.kind == "call" and (ins.decl or "").startswith("core::cmp::PartialOrd::") and len(ins.args) == 2:
                    cmp_ops = ins.args
                if cmp_ops is None:
                    continue
                roots = set()
                for op in cmp_ops:
                    roots |= {l for l in fd2.slice_operand_pure(ins, op)["locals"] if l in dl}
                if roots == dl:
                    # the comparison must select the larger one: `a > b => a` / `a < b => b`
                    gt = ins.rv["op"] in ("Gt", "Ge") if ins.kind == "assign" else (ins.decl or "").split("::")[-1] in ("gt", "ge")
                    first = root_local(fd2, cmp_ops[0].place.local) if cmp_ops[0].place is not None else None
                    cl = ins.place.local if ins.kind == "assign" else ins.dest.local
                    sw = [s_ for s_, _u in fd2.switches.values() if s_.ops and s_.ops[0].place is not None
                          and cl in (fd2.slice_operand_pure(s_, s_.ops[0])["locals"] | {s_.ops[0].place.local})]
                    if sw:
                        s0 = sw[0]
                        t_true = s0.otherwise
                        # the value returned on the true edge
                        rets = [d for d in fd2.defs.get(0, ()) if d.instr is not None and d.instr.kind == "assign"]
                        pick = None
                        for d in rets:
                            if fd2.cfg.dominates(t_true, d.instr.bb) and d.instr.ops and d.instr.ops[0].place is not None:
                                pick = root_local(fd2, d.instr.ops[0].place.local)
                        if pick is not None and first is not None:
                            larger_selected = (pick == first) == gt
                            combined = larger_selected
                            form = "explicit comparison selecting the larger quotient" if larger_selected else "comparison selects the SMALLER quotient"
        ok = pairs == {("passengers", "capacity"), ("seated", "seats")} and combined and "param:2" in rs and "param:3" in rs
        if pairs == {("passengers", "capacity"), ("seated", "seats")} and not combined and form == "max" and not has_method(rs, "core::cmp::Ord::min"):
            ctx.undecided(o, "the two quotients are combined in a form that is not recognised (neither max nor a comparison)")
        else:
            ctx.decide(o, ok, "passengers/capacity and seated/seats, combined with %s" % form, "divisions pair %s%s" % (
                sorted(pairs), "" if combined else " and are not combined with max (%s)" % form))


def rules(ctx):
    fd, edges = flownet.edge_sites(ctx)
    flownet.need(ctx, "R1.trip-upper-bound", edges, "trip", "upper_bound", [call(MFC)],
                 "a trip can carry as many vehicles as its applicable formation limit allows (riding along covers demand elsewhere)")
    flownet.need(ctx, "R1.trip-lower-bound", edges, "trip", "lower_bound", [call(REQ), call(MFC), "param:2"],
                 "trip edges must carry min(required vehicles, applicable formation limit of that trip)")
    required_vehicles_pairing(ctx)
    from .C17 import loader_subset as _ls
    _ls(ctx, ["create_service_trip."])     # demand and limit of a departure are those of its own route segment
    from .C06 import overflow_default
    overflow_default(ctx, "R1")            # the unlimited-formation default is the same where demand is bounded and where the overflow depot is sized
    from .C14 import every_type_is_solved
    every_type_is_solved(ctx, "R1")     # the start solution that covers the demand exists for every vehicle type
    formation_getters(ctx)
    limit_combination(ctx)
    from .C17 import getters as _getters
    before = len(ctx.obligations)
    _getters(ctx)
    ctx.obligations[before:] = [o_ for o_ in ctx.obligations[before:] if o_.id.endswith(("getter.seats", "getter.capacity", "getter.passengers", "getter.seated"))]
    for o_ in ctx.obligations[before:]:
        o_.id = o_.id.replace("C07/R1.", "C07/R2.model.")
    from .C02 import growth_guards
    before = len(ctx.obligations)
    growth_guards(ctx)      # the local search serves a trip up to the limit that applies to it, not beyond and not less
    ctx.obligations[before:] = [o for o in ctx.obligations[before:] if "R2." in o.id]
    for ob in ctx.obligations[before:]:
        ob.id = ob.id.replace("C07/R2.", "C07/R6.guards.")
    objective.level_order(ctx, "R3")
    unserved_is_a_sum(ctx, "R3")
    # R4 frames: post-search stages never touch formations / unserved counters
    sites = common.sites_of(ctx, SCHEDULE)
    # R5: the unserved-passenger cache the search optimises is rebuilt whenever formations change (shared with C09)
    common.coupled_updates(ctx, "R5", SCHEDULE, common.SCHEDULE_PAIRS, floor=13,
                           only_pairs={("train_formations", "unserved_passengers"), ("unserved_passengers", "train_formations")})
    common.lost_update_rule(ctx, "R5", SCHEDULE, sites)
    for fn in ("set_next_day_transitions", "reassign_end_depots_consistent_with_transitions", "improve_depots", "recompute_transitions_for"):
        common.frame_rule(ctx, "R4", SCHEDULE, sites, S(fn), ["train_formations", "unserved_passengers", "vehicles"],
                          "%s keeps train formations, vehicles and the unserved-passenger counters" % fn)
    must_depend(ctx, "R4.unserved-definition", "T1", S("compute_unserved_passengers_at_node"), "ret",
                [call(N("passengers_of")), call(N("seated_passengers_of")), call(TRAINF + "::capacity"), call(TRAINF + "::seats"), "param:2", "param:3"],
                "unserved passengers at a node compare demand with the formation's capacity and seats")
