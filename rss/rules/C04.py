"""C04 - reported objective value is the true value of the returned schedule."""
from ..rulelib import *
from . import common, objective
from .C16 import EVAL, OUT, REASSIGN

NOTE = ("Static conditions that the reported components are read from the caches of the final schedule and that "
        "those caches are maintained: indicator/getter pairing, evaluation wired to the end-depot-aligned schedule, "
        "coupled-update classification of all Schedule producers (shared with C09), source sets of the from-scratch "
        "definitions. The arithmetic of delta formulas is not decided (see C09).")

COSTS = "model::config::CostsConfig"
MAINT = "model::config::MaintenanceConfig"


def rules(ctx):
    objective.indicators(ctx, "R1")
    # the reported figures are those of the instance that was sent: a departure takes distance and duration from its own route segment
    # (loader rules shared with C17), and every rotation cycle the violation was computed from is in the answer (shared with C03)
    from .C17 import loader_subset as _ls
    _ls(ctx, ["create_service_trip."])
    from . import C03 as _c03
    _b = len(ctx.obligations)
    _c03.completeness(ctx)
    ctx.obligations[_b:] = [o_ for o_ in ctx.obligations[_b:] if "rotation-cycle" in o_.id]
    for o_ in ctx.obligations[_b:]:
        o_.id = o_.id.replace("C04/R2.", "C04/R5.json.")
    # R2: evaluation of the final schedule feeds the output (both pipelines)
    for key, tag in (("server::solve_instance", "server"), ("internal::run", "internal")):
        o, fd = ctx.require_fn("R2.%s.objective-of-final-schedule" % tag, "T4", key,
                               "the JSON's objective value is the evaluation of the schedule that is written out")
        if fd is None:
            continue
        sites = calls_to(fd, OUT)
        good = False
        for ins in sites:
            sl = arg_slice(fd, ins, 0)
            for d in sl["defs"]:
                i2 = d.instr
                if i2 is not None and i2.kind == "call" and i2.callee == EVAL and slice_has_call_def(arg_slice(fd, i2, 1), REASSIGN):
                    good = True
        ctx.decide(o, good, "create_output_json receives Objective::evaluate(final schedule)",
                   "create_output_json is not fed by the evaluation of the end-depot-aligned schedule")
    o, fd = ctx.require_fn("R2.output-same-solution", "T1", OUT,
                           "schedule and objective value in the JSON come from the same evaluated solution")
    if fd is not None:
        a = calls_to(fd, "solution::json_serialisation::schedule_to_json")
        b = calls_to(fd, "rapid_solve::objective::Objective::objective_value_to_json")
        ok = len(a) == 1 and len(b) == 1 and "param:1" in arg_slice(fd, a[0], 0, control=False)["atoms"] \
            and "param:1" in arg_slice(fd, b[0], 1, control=False)["atoms"]
        rs = fd.ret_slice()
        ok = ok and slice_has_call_def(rs, a[0].callee) is not None and slice_has_call_def(rs, b[0].callee) is not None
        ctx.decide(o, ok, "both derive from parameter 1 and reach the returned value",
                   "schedule_to_json / objective_value_to_json are not both fed from the evaluated solution parameter")
    # R3: coupling (only the pairs that feed objective components)
    pairs = {("tours", "costs"), ("tours", "next_period_transitions"), ("next_period_transitions", "maintenance_violation"),
             ("train_formations", "unserved_passengers"), ("vehicles", "tours")}
    common.coupled_updates(ctx, "R3", SCHEDULE, common.SCHEDULE_PAIRS, floor=13, only_pairs=pairs)
    # R4: from-scratch definitions use the documented inputs
    must_depend(ctx, "R4.tour-costs-definition", "T1", T("compute_costs_of_nodes"), "ret",
                [field(COSTS, "service_trip"), field(COSTS, "maintenance"), field(COSTS, "dead_head_trip"), field(COSTS, "idle"),
                 call(N("dead_head_time_between")), call(N("idle_time_between")), call(ND("duration"))],
                "tour costs = service + maintenance + dead-head + idle seconds times their rates")
    must_depend(ctx, "R4.staff-term", "T1", S("empty"), "ret", [field(COSTS, "staff"), call(N("number_of_service_nodes"))],
                "the empty schedule starts with the staff term")
    must_depend(ctx, "R4.maintenance-counter-definition", "T1", T("maintenance_counter"), "ret",
                [field(TOUR, "visits_maintenance"), call(T("total_distance")), field(MAINT, "maximal_distance")],
                "a tour's maintenance counter = total distance minus one allowance if it visits a slot")
    must_depend(ctx, "R4.total-distance-definition", "T1", T("total_distance"), "ret",
                [field(TOUR, "service_distance"), field(TOUR, "dead_head_distance")],
                "total distance = service + dead-head distance")
    must_depend(ctx, "R4.unserved-definition", "T1", S("compute_unserved_passengers_at_node"), "ret",
                [call(N("passengers_of")), call(N("seated_passengers_of")), call(TRAINF + "::capacity"), call(TRAINF + "::seats")],
                "unserved passengers at a node = demand minus formation capacity / seats")
    from .C07 import formation_getters
    formation_getters(ctx, "R4")
    from . import formulas
    before = len(ctx.obligations)
    formulas.tour_formulas(ctx, "R4")
    ctx.obligations[before:] = [o for o in ctx.obligations[before:] if "formula" in o.id]
    before = len(ctx.obligations)
    formulas.network_formulas(ctx, "R4")
    ctx.obligations[before:] = [o for o in ctx.obligations[before:] if "idle_time" in o.id or "duration" in o.id]
    # R5: the caches read by the indicators are maintained truthfully (rule groups shared with C09 / C07)
    from .C09 import tour_cache_rules, cycle_update_rules, cost_delta_form
    from .C07 import unserved_is_a_sum
    tour_cache_rules(ctx)
    cycle_update_rules(ctx)
    from . import order
    order.pair_order(ctx, "R5")
    unserved_is_a_sum(ctx, "R1")
    s_sites = common.sites_of(ctx, SCHEDULE)
    common.lost_update_rule(ctx, "R5", SCHEDULE, s_sites)
    common.lost_update_rule(ctx, "R5", TRANSITION, common.sites_of(ctx, TRANSITION))
    must_depend(ctx, "R4.transition-violation-getter", "T1", TR("maintenance_violation"), "ret",
                [field(TRANSITION, "total_maintenance_violation")], "a transition reports its cached total violation")
