"""T12 tie-consistency recognisers (shared by C12, C14, C17).

Network::can_reach admits equality (arrival + turnaround <= start).  Any prefilter that
excludes candidates before can_reach is consulted must therefore not exclude the equality case.
Recognised bad forms are reported; recognised good forms pass; anything else is *undecided*.
"""
from ..rulelib import *

BT_RANGE = "alloc::collections::btree::map::BTreeMap::range"
SMALLEST = "model::base_types::NodeIdx::smallest"
NODEIDX = "model::base_types::NodeIdx"
RANGES = {
    "core::ops::range::RangeTo": "to",
    "core::ops::range::RangeToInclusive": "to_incl",
    "core::ops::range::RangeFrom": "from",
    "core::ops::range::RangeFull": "full",
    "core::ops::range::Range": "range",
    "core::ops::range::RangeInclusive": "range_incl",
}


def single_def(fd, op):
    if op.place is None or not op.place.is_local:
        return None
    ds = [d for d in fd.defs.get(op.place.local, ()) if d.kind != "param"]
    if len(ds) != 1:
        return None
    d = ds[0]
    if d.kind == "assign" and d.instr.rv_kind() == "use" and d.instr.ops and d.instr.ops[0].place is not None \
            and d.instr.ops[0].place.is_local:
        return single_def(fd, d.instr.ops[0])
    return d


def is_maximal_node_idx(ctx, callee):
    """does `callee` return the largest NodeIdx (last variant, maximal payload)?"""
    b = ctx.prog.bodies.get(callee)
    adt = ctx.prog.adts.get(NODEIDX)
    if b is None or adt is None:
        return False
    last = adt["variants"][-1]["name"]
    for ins in b.instrs():
        if ins.kind == "assign" and ins.rv_kind() == "agg" and ins.rv.get("adt") == NODEIDX:
            if ins.rv.get("v") != last:
                return False
            c = ins.ops[0].const if ins.ops else None
            if c is None or "val" not in c:
                return False
            v = int(c["val"])
            return v in (2 ** 8 - 1, 2 ** 16 - 1, 2 ** 32 - 1, 2 ** 64 - 1)
    return False


def node_idx_extreme(ctx, callee):
    """'max' / 'min' when `callee` returns the literal greatest / least NodeIdx under the derived order (variants compare in declaration
    order, then by payload), 'neither' when it returns another literal, None when this cannot be read off (no literal, or Ord is hand-written)"""
    b = ctx.prog.bodies.get(callee)
    adt = ctx.prog.adts.get(NODEIDX)
    cmpb = ctx.prog.bodies.get("<%s as core::cmp::Ord>::cmp" % NODEIDX)
    if b is None or adt is None or cmpb is None:
        return None
    if not all(i.j.get("exp") for i in cmpb.instrs() if i.kind in ("assign", "call")):
        return None         # a hand-written order: declaration order says nothing
    n = len(adt["variants"])
    lits = [i for i in b.instrs() if i.kind == "assign" and i.rv_kind() == "agg" and i.rv.get("adt") == NODEIDX]
    if len(lits) != 1 or not lits[0].ops or lits[0].ops[0].const is None or "val" not in lits[0].ops[0].const:
        return None
    vi, v = lits[0].rv.get("vi"), int(lits[0].ops[0].const["val"])
    if vi == n - 1 and v in (2 ** 8 - 1, 2 ** 16 - 1, 2 ** 32 - 1, 2 ** 64 - 1):
        return "max"
    if vi == 0 and v == 0:
        return "min"
    return "neither"


def range_bound_rule(ctx, oid, key, side):
    """side='pred': the upper bound of the by-end map must include arrival == node start;
       side='succ': the lower bound of the by-start map must include start == node end"""
    what = {"pred": "predecessor enumeration keeps nodes arriving exactly at the node's start time",
            "succ": "successor enumeration keeps nodes starting exactly at the node's end time"}[side]
    o, fd = ctx.require_fn(oid, "T12", key, what)
    if fd is None:
        return o
    sites = calls_to(fd, BT_RANGE)
    ctx.call_sites += len(sites)
    rs = fd.ret_slice()
    canreach = call(N("can_reach")) in rs["atoms"]
    if not canreach:
        return ctx.bad(o, "the enumeration is not filtered through Network::can_reach")
    if not sites:
        return ctx.ok(o, "no range prefilter: every node of the type is tested with can_reach")
    verdicts = []
    for ins in sites:
        d = single_def(fd, ins.args[1])
        if d is None or d.kind != "assign" or d.instr.rv_kind() != "agg" or d.instr.rv.get("adt") not in RANGES:
            verdicts.append(("undecided", ins, "range bound is not a literal range expression"))
            continue
        rk = RANGES[d.instr.rv["adt"]]
        if rk == "full":
            verdicts.append(("ok", ins, "unbounded range"))
            continue
        if (side == "pred" and rk not in ("to", "to_incl")) or (side == "succ" and rk != "from"):
            verdicts.append(("undecided", ins, "range form `%s` not recognised for this side" % rk))
            continue
        bound = single_def(fd, d.instr.ops[0])
        if bound is None or bound.kind != "assign" or bound.instr.rv_kind() != "agg" or bound.instr.rv.get("ak") != "tuple" \
                or len(bound.instr.ops) != 2:
            verdicts.append(("undecided", ins, "bound is not a (time, node index) tuple literal"))
            continue
        t_op, i_op = bound.instr.ops
        tsl = fd.slice_operand_pure(bound.instr, t_op)
        want = call(ND("start_time")) if side == "pred" else call(ND("end_time"))
        if want not in tsl["atoms"] or "param:3" not in tsl["atoms"]:
            verdicts.append(("undecided", ins, "time component of the bound is not the node's own %s"
                             % ("start time" if side == "pred" else "end time")))
            continue
        if any(d.instr is not None and d.instr.kind == "call" and d.instr.decl in ("core::ops::arith::Sub::sub", "core::ops::arith::Add::add")
               for d in tsl["defs"]):
            verdicts.append(("bad", ins, "the time bound of the range is shifted by arithmetic: nodes between the shifted bound and the node's own "
                             "%s are cut off before can_reach is asked (a dead-head connection can be shorter than a same-location turnaround)"
                             % ("start time" if side == "pred" else "end time")))
            continue
        idx_src = direct_call_source(fd, i_op)
        if side == "pred":
            if rk == "to" and idx_src == SMALLEST:
                verdicts.append(("bad", ins, "`..(start_time, NodeIdx::smallest())` is an exclusive upper bound at the smallest "
                                 "index: every node that ends exactly at the start time is cut off although can_reach "
                                 "admits arrival + turnaround == start (zero turnaround, back-to-back trips)"))
            elif rk == "to_incl" and idx_src is not None and is_maximal_node_idx(ctx, idx_src):
                verdicts.append(("ok", ins, "inclusive upper bound at the largest node index: ties are kept"))
            elif rk == "to_incl" and idx_src == SMALLEST:
                verdicts.append(("bad", ins, "`..=(start_time, smallest())` keeps only the smallest index among the ties"))
            elif rk == "to_incl" and idx_src is not None and node_idx_extreme(ctx, idx_src) == "neither":
                verdicts.append(("bad", ins, "the index of the inclusive upper bound (%s) is not the greatest NodeIdx under the derived order "
                                 "(variants are declared as %s): nodes of a later variant that end exactly at the start time are cut off "
                                 "although can_reach admits them" % (idx_src.split("::")[-1] + "()",
                                                                     ", ".join(v["name"] for v in ctx.prog.adts[NODEIDX]["variants"]))))
            elif idx_src is None and "param:3" in fd.slice_operand_pure(bound.instr, i_op)["atoms"] \
                    and not any(a.startswith("call:") for a in fd.slice_operand_pure(bound.instr, i_op)["atoms"]):
                verdicts.append(("bad", ins, "the upper bound uses the node's own index: predecessors that end exactly at the start "
                                 "time but have a larger node index are cut off although can_reach admits them"))
            else:
                verdicts.append(("undecided", ins, "upper bound form not recognised"))
        else:
            if idx_src == SMALLEST and node_idx_extreme(ctx, SMALLEST) == "neither":
                verdicts.append(("bad", ins, "NodeIdx::smallest() is not the least NodeIdx under the derived order (variants are declared as %s): "
                                 "nodes of an earlier variant that start exactly at the end time are skipped"
                                 % ", ".join(v["name"] for v in ctx.prog.adts[NODEIDX]["variants"])))
            elif idx_src == SMALLEST:
                verdicts.append(("ok", ins, "inclusive lower bound at the smallest node index: ties are kept"))
            elif idx_src is not None and is_maximal_node_idx(ctx, idx_src):
                verdicts.append(("bad", ins, "lower bound at the largest node index skips every node starting exactly at the end time"))
            else:
                verdicts.append(("undecided", ins, "lower bound form not recognised"))
    bad = [v for v in verdicts if v[0] == "bad"]
    und = [v for v in verdicts if v[0] == "undecided"]
    if bad:
        return ctx.bad(o, bad[0][2], loc=bad[0][1].line())
    if und:
        return ctx.undecided(o, "; ".join(v[2] for v in und))
    return ctx.ok(o, "; ".join(v[2] for v in verdicts))
