"""Loading and indexing of the fact files written by the rsslint driver.

A Program is the type-checked workspace as exported from rustc: MIR bodies with
resolved callees, ADT layouts, signatures, statics, unsafe sites.
"""
import glob
import json
import os
import re


class Place:
    __slots__ = ("local", "proj")

    def __init__(self, j):
        self.local = j["l"]
        self.proj = j["p"]

    @property
    def is_local(self):
        return not self.proj

    def has_deref(self):
        return any(p["k"] == "deref" for p in self.proj)

    def first_deref(self):
        return bool(self.proj) and self.proj[0]["k"] == "deref"

    def fields(self):
        """list of (adt, variant, name) for named field projections, in order"""
        out = []
        for p in self.proj:
            if p["k"] == "field":
                out.append((p.get("adt"), p.get("v"), p.get("n"), p["i"]))
        return out

    def field_path(self):
        """tuple of field names (or indices) ignoring derefs/downcasts"""
        out = []
        for p in self.proj:
            if p["k"] == "field":
                out.append(p.get("n") if p.get("n") is not None else p["i"])
        return tuple(out)

    def index_locals(self):
        return [p["l"] for p in self.proj if p["k"] == "index"]

    def __repr__(self):
        s = "_%d" % self.local
        for p in self.proj:
            k = p["k"]
            if k == "deref":
                s = "(*%s)" % s
            elif k == "field":
                s = "%s.%s" % (s, p.get("n", p["i"]))
            elif k == "index":
                s = "%s[_%d]" % (s, p["l"])
            elif k == "downcast":
                s = "(%s as %s)" % (s, p.get("v"))
            else:
                s = "%s.<%s>" % (s, k)
        return s


class Operand:
    __slots__ = ("kind", "place", "const")

    def __init__(self, j):
        self.kind = j["k"]
        self.place = Place(j["pl"]) if "pl" in j else None
        self.const = j if self.kind == "const" else None

    @property
    def local(self):
        return self.place.local if self.place is not None else None

    def const_val(self):
        if self.const is not None and "val" in self.const:
            return int(self.const["val"])
        return None

    def const_str(self):
        return self.const.get("s") if self.const is not None else None

    def fn(self):
        if self.const is not None:
            return self.const.get("fn")
        return None

    def __repr__(self):
        if self.place is not None:
            return "%s %r" % (self.kind, self.place)
        if self.const is not None:
            return "const %s" % self.const.get("s")
        return self.kind


class Instr:
    """one MIR statement or terminator"""
    __slots__ = ("bb", "idx", "kind", "j", "place", "rv", "ops", "func", "args",
                 "dest", "target", "span", "exp", "callee", "decl", "callee_crate",
                 "targs", "targets", "otherwise", "shim")

    def __init__(self, bb, idx, j):
        self.bb = bb
        self.idx = idx
        self.kind = j["k"]
        self.j = j
        self.place = None
        self.rv = None
        self.ops = []
        self.func = None
        self.args = []
        self.dest = None
        self.target = None
        self.span = j.get("sp")
        self.exp = j.get("exp", False)
        self.callee = None
        self.decl = None
        self.callee_crate = None
        self.targs = []
        self.targets = []
        self.otherwise = None
        self.shim = None
        k = self.kind
        if k == "assign":
            self.place = Place(j["pl"])
            self.rv = j["rv"]
            rk = self.rv["k"]
            if rk in ("use", "repeat", "cast"):
                self.ops = [Operand(self.rv["op"])]
            elif rk == "binop":
                self.ops = [Operand(self.rv["a"]), Operand(self.rv["b"])]
            elif rk == "unop":
                self.ops = [Operand(self.rv["a"])]
            elif rk == "agg":
                self.ops = [Operand(o) for o in self.rv["ops"]]
        elif k == "setdiscr":
            self.place = Place(j["pl"])
        elif k in ("call", "tailcall"):
            self.func = Operand(j["func"])
            self.args = [Operand(a) for a in j["args"]]
            if "dest" in j:
                self.dest = Place(j["dest"])
            self.target = j.get("t")
            f = self.func.fn()
            if f is not None:
                self.callee = f["callee"]
                self.decl = f["decl"]
                self.callee_crate = f["crate"]
                self.targs = f.get("targs", [])
                self.shim = f.get("shim")
        elif k == "switch":
            self.ops = [Operand(j["op"])]
            self.targets = [(int(v), b) for v, b in j["targets"]]
            self.otherwise = j["otherwise"]
        elif k == "assert":
            self.ops = [Operand(j["cond"])]
            self.target = j["t"]
        elif k == "drop":
            self.place = Place(j["pl"])
            self.target = j["t"]
        elif k == "goto":
            self.target = j["t"]

    @property
    def id(self):
        return (self.bb, self.idx)

    def rv_kind(self):
        return self.rv["k"] if self.rv is not None else None

    def ref_place(self):
        if self.rv is not None and self.rv["k"] in ("ref", "rawptr"):
            return Place(self.rv["pl"])
        return None

    def discr_place(self):
        if self.rv is not None and self.rv["k"] == "discr":
            return Place(self.rv["pl"])
        return None

    def line(self):
        if self.span:
            m = re.match(r"(.*?):(\d+):", self.span)
            if m:
                return "%s:%s" % (m.group(1), m.group(2))
        return "?"


class Body:
    def __init__(self, j, crate_file):
        self.j = j
        self.key = j["key"]
        self.path = j["path"]
        self.crate = j["crate"]
        self.external = j.get("external", False)
        self.defkind = j["defkind"]
        self.parent = j.get("parent")
        self.root = j.get("root")
        self.span = j["span"]
        self.argc = j["argc"]
        self.locals = j["locals"]
        self.captures = j.get("captures", [])
        self.crate_file = crate_file
        self.blocks = []  # list of (list of Instr incl terminator) ; cleanup blocks are None
        self.cleanup = []
        for bi, b in enumerate(j["blocks"]):
            self.cleanup.append(b["cleanup"])
            ins = [Instr(bi, i, s) for i, s in enumerate(b["s"])]
            ins.append(Instr(bi, len(ins), b["t"]))
            self.blocks.append(ins)
        self.is_closure = self.defkind == "Closure"

    def file_line(self):
        m = re.match(r"(.*?):(\d+):", self.span)
        return "%s:%s" % (m.group(1), m.group(2)) if m else self.span

    def instrs(self, include_cleanup=False):
        for bi, b in enumerate(self.blocks):
            if self.cleanup[bi] and not include_cleanup:
                continue
            for ins in b:
                yield ins

    def calls(self, pred=None):
        for ins in self.instrs():
            if ins.kind in ("call", "tailcall"):
                if pred is None or (ins.callee is not None and pred(ins.callee)):
                    yield ins

    def local_name(self, l):
        if 0 <= l < len(self.locals):
            return self.locals[l].get("name")
        return None

    def local_ty(self, l):
        return self.locals[l]["ty"] if 0 <= l < len(self.locals) else "?"

    def local_tk(self, l):
        return self.locals[l]["tk"] if 0 <= l < len(self.locals) else {"k": "other"}

    def describe_local(self, l):
        n = self.local_name(l)
        return "_%d%s" % (l, "(%s)" % n if n else "")


SKIP_BODY_PAT = re.compile(r"_serde::|serde::(de|ser)::|__FieldVisitor|__Visitor|__Field\b")


class Program:
    def __init__(self, facts_dir, include_test=False):
        self.facts_dir = facts_dir
        self.bodies = {}
        self.sigs = {}
        self.adts = {}
        self.statics = []
        self.unsafe_blocks = []
        self.unsafe_fns = []
        self.units = []
        self.skipped_bodies = 0
        files = sorted(glob.glob(os.path.join(facts_dir, "*.json")))
        if not files:
            raise RuntimeError("no fact files in %s" % facts_dir)
        for f in files:
            with open(f) as fh:
                d = json.load(fh)
            unit = {"file": os.path.basename(f), "crate": d["crate"], "types": d["crate_types"],
                    "test": d["test_harness"], "bodies": len(d["bodies"])}
            self.units.append(unit)
            for bj in d["bodies"] + d.get("ext_bodies", []):
                if SKIP_BODY_PAT.search(bj["key"]):
                    self.skipped_bodies += 1
                    continue
                b = Body(bj, unit["file"])
                b.test_unit = d["test_harness"]
                k = b.key
                if d["crate"] != b.crate:
                    pass
                # bins and libs can share a crate name (server): prefix bin keys
                if "Executable" in "".join(d["crate_types"]):
                    k = "bin:" + k
                    b.key = k
                    if b.parent:
                        b.parent = "bin:" + b.parent
                    if b.root:
                        b.root = "bin:" + b.root
                if k in self.bodies and not self.bodies[k].test_unit:
                    continue
                self.bodies[k] = b
            for s in d["sigs"]:
                k = s["key"]
                if "Executable" in "".join(d["crate_types"]):
                    k = "bin:" + k
                s["unit_test"] = d["test_harness"]
                if k not in self.sigs or self.sigs[k].get("unit_test"):
                    self.sigs[k] = s
            for a in d["adts"]:
                if a["path"] not in self.adts:
                    a["crate"] = d["crate"]
                    self.adts[a["path"]] = a
            for s in d["statics"]:
                s["crate"] = d["crate"]
                self.statics.append(s)
            for s in d["unsafe_blocks"]:
                self.unsafe_blocks.append({"crate": d["crate"], "span": s})
            for s in d["unsafe_fns"]:
                s["crate"] = d["crate"]
                self.unsafe_fns.append(s)
        self.closures_of = {}
        for k, b in self.bodies.items():
            if b.parent:
                self.closures_of.setdefault(b.parent, []).append(k)

    def body(self, key):
        return self.bodies.get(key)

    def find(self, pattern):
        """keys matching a regex (full match)"""
        r = re.compile(pattern)
        return sorted(k for k in self.bodies if r.fullmatch(k))

    def crates(self):
        return sorted({u["crate"] for u in self.units})

    def family(self, key):
        """a function together with its (nested) closures"""
        out = [key]
        i = 0
        while i < len(out):
            out.extend(self.closures_of.get(out[i], []))
            i += 1
        return out
