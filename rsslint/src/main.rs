// rsslint: a rustc_private driver that exports, for every compilation unit of the
// analysed workspace, the type-checked program in a form the rule evaluator
// (/verif/bin/rsscheck.py) can analyse: MIR bodies with *resolved* callees, place
// projections with field names, constants evaluated by the compiler, ADT layouts with
// the compiler's own `Freeze` verdict per field (interior mutability), function
// signatures with visibility, statics and `unsafe` sites from HIR.
//
// It does not decide anything itself; it is the "front end" of the static analysis.
// Used as RUSTC_WORKSPACE_WRAPPER: argv[1] is the real rustc path and is dropped.
// Output: one file $RSSLINT_OUT/<crate>.<kind>.<pid>.json per rustc process.
#![feature(rustc_private)]

extern crate rustc_abi;
extern crate rustc_driver;
extern crate rustc_hir;
extern crate rustc_interface;
extern crate rustc_middle;
extern crate rustc_session;
extern crate rustc_span;

use rustc_driver::{Callbacks, Compilation};
use rustc_hir::def::DefKind;
use rustc_hir::def_id::{DefId, LocalDefId, LOCAL_CRATE};
use rustc_interface::interface::Compiler;
use rustc_middle::mir::{
    self, AggregateKind, BinOp, Body, BorrowKind, Operand, Place, ProjectionElem, Rvalue,
    StatementKind, TerminatorKind,
};
use rustc_middle::ty::{self, GenericArgsRef, Instance, Ty, TyCtxt, TypingEnv};
use rustc_span::Span;
use std::collections::{BTreeMap, BTreeSet};
use std::fmt::Write as _;

fn jstr(s: &str) -> String {
    let mut o = String::with_capacity(s.len() + 2);
    o.push('"');
    for c in s.chars() {
        match c {
            '"' => o.push_str("\\\""),
            '\\' => o.push_str("\\\\"),
            '\n' => o.push_str("\\n"),
            '\r' => o.push_str("\\r"),
            '\t' => o.push_str("\\t"),
            c if (c as u32) < 0x20 => {
                let _ = write!(o, "\\u{:04x}", c as u32);
            }
            c => o.push(c),
        }
    }
    o.push('"');
    o
}

fn jarr(items: &[String]) -> String {
    let mut o = String::from("[");
    for (i, it) in items.iter().enumerate() {
        if i > 0 {
            o.push(',');
        }
        o.push_str(it);
    }
    o.push(']');
    o
}

fn jobj(items: &[(&str, String)]) -> String {
    let mut o = String::from("{");
    for (i, (k, v)) in items.iter().enumerate() {
        if i > 0 {
            o.push(',');
        }
        o.push_str(&jstr(k));
        o.push(':');
        o.push_str(v);
    }
    o.push('}');
    o
}

fn jbool(b: bool) -> String {
    if b { "true".into() } else { "false".into() }
}

fn jopt(o: Option<String>) -> String {
    o.unwrap_or_else(|| "null".into())
}

struct Ex<'tcx> {
    tcx: TyCtxt<'tcx>,
    ext_crates: BTreeSet<String>,
    ext_queue: Vec<DefId>,
    ext_seen: std::collections::HashSet<DefId>,
}

impl<'tcx> Ex<'tcx> {
    /// canonical definition path: crate name + definition path (never a re-export),
    /// identical from whichever crate it is printed
    fn path(&self, did: DefId) -> String {
        let dp = self.tcx.def_path(did);
        format!("{}{}", self.tcx.crate_name(did.krate), dp.to_string_no_crate_verbose())
    }

    fn crate_of(&self, did: DefId) -> String {
        self.tcx.crate_name(did.krate).to_string()
    }

    fn span(&self, sp: Span) -> String {
        let sm = self.tcx.sess.source_map();
        let lo = sm.lookup_char_pos(sp.lo());
        let hi = sm.lookup_char_pos(sp.hi());
        let f = match &lo.file.name {
            rustc_span::FileName::Real(r) => match r.local_path() {
                Some(p) => p.to_string_lossy().to_string(),
                None => format!("{:?}", lo.file.name),
            },
            other => format!("{:?}", other),
        };
        format!("{}:{}:{}-{}", f, lo.line, lo.col.0 + 1, hi.line)
    }

    /// canonical key of a function-like item: independent of the module in which an
    /// impl block happens to be written.
    fn key(&self, did: DefId) -> String {
        let tcx = self.tcx;
        match tcx.def_kind(did) {
            DefKind::Closure | DefKind::InlineConst | DefKind::AnonConst | DefKind::SyntheticCoroutineBody => {
                let parent = tcx.parent(did);
                let dp = tcx.def_path(did);
                let last = dp.data.last().map(|d| format!("{{{:?}#{}}}", d.data, d.disambiguator)).unwrap_or_default();
                format!("{}::{}", self.key(parent), last.replace("Closure", "closure"))
            }
            DefKind::AssocFn | DefKind::AssocConst { .. } | DefKind::AssocTy => {
                let parent = tcx.parent(did);
                let name = tcx.item_name(did).to_string();
                match tcx.def_kind(parent) {
                    DefKind::Impl { of_trait } => {
                        let self_ty = tcx.type_of(parent).instantiate_identity().skip_norm_wip();
                        let st = self.ty_head(self_ty);
                        if of_trait {
                            let tr = tcx.impl_trait_ref(parent).instantiate_identity().skip_norm_wip();
                            format!("<{} as {}>::{}", st, self.path(tr.def_id), name)
                        } else {
                            format!("{}::{}", st, name)
                        }
                    }
                    DefKind::Trait => format!("{}::{}", self.path(parent), name),
                    _ => self.path(did),
                }
            }
            _ => self.path(did),
        }
    }

    /// head of a type: ADT path without generic arguments, or a printed type
    fn ty_head(&self, t: Ty<'tcx>) -> String {
        match t.kind() {
            ty::Adt(adt, _) => self.path(adt.did()),
            ty::Ref(_, inner, m) => format!("&{}{}", if m.is_mut() { "mut " } else { "" }, self.ty_head(*inner)),
            _ => ty::print::with_no_trimmed_paths!(t.to_string()),
        }
    }

    fn ty_str(&self, t: Ty<'tcx>) -> String {
        ty::print::with_no_trimmed_paths!(t.to_string())
    }

    fn tyk(&self, t: Ty<'tcx>, depth: usize) -> String {
        if depth == 0 {
            return jobj(&[("k", jstr("deep")), ("s", jstr(&self.ty_str(t)))]);
        }
        match t.kind() {
            ty::Adt(adt, args) => {
                let a: Vec<String> = args.types().map(|x| self.tyk(x, depth - 1)).collect();
                jobj(&[("k", jstr("adt")), ("p", jstr(&self.path(adt.did()))), ("a", jarr(&a))])
            }
            ty::Ref(_, inner, m) => jobj(&[
                ("k", jstr("ref")),
                ("m", jbool(m.is_mut())),
                ("t", self.tyk(*inner, depth - 1)),
            ]),
            ty::RawPtr(inner, m) => jobj(&[
                ("k", jstr("ptr")),
                ("m", jbool(m.is_mut())),
                ("t", self.tyk(*inner, depth - 1)),
            ]),
            ty::Tuple(ts) => {
                let a: Vec<String> = ts.iter().map(|x| self.tyk(x, depth - 1)).collect();
                jobj(&[("k", jstr("tuple")), ("a", jarr(&a))])
            }
            ty::Closure(did, _) => jobj(&[("k", jstr("closure")), ("p", jstr(&self.key(*did)))]),
            ty::FnDef(did, _) => jobj(&[("k", jstr("fndef")), ("p", jstr(&self.key(*did)))]),
            ty::Slice(inner) => jobj(&[("k", jstr("slice")), ("t", self.tyk(*inner, depth - 1))]),
            ty::Array(inner, _) => jobj(&[("k", jstr("array")), ("t", self.tyk(*inner, depth - 1))]),
            ty::Bool | ty::Char | ty::Int(_) | ty::Uint(_) | ty::Float(_) | ty::Str | ty::Never => {
                jobj(&[("k", jstr("prim")), ("n", jstr(&self.ty_str(t)))])
            }
            ty::Param(p) => jobj(&[("k", jstr("param")), ("n", jstr(p.name.as_str()))]),
            _ => jobj(&[("k", jstr("other")), ("s", jstr(&self.ty_str(t)))]),
        }
    }

    fn place(&self, body: &Body<'tcx>, p: &Place<'tcx>) -> String {
        let tcx = self.tcx;
        let mut projs: Vec<String> = Vec::new();
        let mut pty = mir::PlaceTy::from_ty(body.local_decls[p.local].ty);
        for elem in p.projection.iter() {
            let j = match elem {
                ProjectionElem::Deref => jobj(&[("k", jstr("deref"))]),
                ProjectionElem::Field(f, fty) => {
                    let mut items: Vec<(&str, String)> =
                        vec![("k", jstr("field")), ("i", f.index().to_string())];
                    match pty.ty.kind() {
                        ty::Adt(adt, _) => {
                            let vi = pty.variant_index.unwrap_or(rustc_abi::FIRST_VARIANT);
                            if adt.is_enum() || adt.is_struct() || adt.is_union() {
                                if let Some(v) = adt.variants().get(vi) {
                                    items.push(("adt", jstr(&self.path(adt.did()))));
                                    items.push(("v", jstr(v.name.as_str())));
                                    if let Some(fd) = v.fields.get(f) {
                                        items.push(("n", jstr(fd.name.as_str())));
                                    }
                                }
                            }
                        }
                        ty::Closure(did, _) => {
                            items.push(("closure", jstr(&self.key(*did))));
                        }
                        ty::Tuple(_) => {
                            items.push(("tuple", jbool(true)));
                        }
                        _ => {}
                    }
                    items.push(("ty", jstr(&self.ty_head(fty))));
                    jobj(&items)
                }
                ProjectionElem::Index(l) => jobj(&[("k", jstr("index")), ("l", l.index().to_string())]),
                ProjectionElem::ConstantIndex { offset, from_end, .. } => jobj(&[
                    ("k", jstr("cindex")),
                    ("o", offset.to_string()),
                    ("fe", jbool(from_end)),
                ]),
                ProjectionElem::Subslice { .. } => jobj(&[("k", jstr("subslice"))]),
                ProjectionElem::Downcast(name, vi) => jobj(&[
                    ("k", jstr("downcast")),
                    ("v", jstr(&name.map(|s| s.to_string()).unwrap_or_default())),
                    ("vi", vi.index().to_string()),
                ]),
                ProjectionElem::OpaqueCast(_) => jobj(&[("k", jstr("opaque"))]),
                ProjectionElem::UnwrapUnsafeBinder(_) => jobj(&[("k", jstr("unwrapbinder"))]),
            };
            projs.push(j);
            pty = pty.projection_ty(tcx, elem);
        }
        jobj(&[("l", p.local.index().to_string()), ("p", jarr(&projs))])
    }

    fn resolve_fn(&mut self, tenv: TypingEnv<'tcx>, did: DefId, args: GenericArgsRef<'tcx>) -> Vec<(&'static str, String)> {
        let tcx = self.tcx;
        let mut items: Vec<(&'static str, String)> = Vec::new();
        items.push(("decl", jstr(&self.key(did))));
        items.push(("decl_path", jstr(&self.path(did))));
        let mut resolved = did;
        let mut shim = String::new();
        if matches!(tcx.def_kind(did), DefKind::Fn | DefKind::AssocFn) {
            let r = std::panic::catch_unwind(std::panic::AssertUnwindSafe(|| {
                Instance::try_resolve(tcx, tenv, did, args)
            }));
            if let Ok(Ok(Some(inst))) = r {
                resolved = inst.def_id();
                match inst.def {
                    ty::InstanceKind::Item(_) => {}
                    other => {
                        shim = format!("{:?}", std::mem::discriminant(&other));
                        let _ = &other;
                        shim = match other {
                            ty::InstanceKind::CloneShim(..) => "clone_shim".into(),
                            ty::InstanceKind::FnPtrShim(..) => "fnptr_shim".into(),
                            ty::InstanceKind::ClosureOnceShim { .. } => "closure_once_shim".into(),
                            ty::InstanceKind::Virtual(..) => "virtual".into(),
                            ty::InstanceKind::Intrinsic(..) => "intrinsic".into(),
                            ty::InstanceKind::DropGlue(..) => "drop_glue".into(),
                            ty::InstanceKind::ReifyShim(..) => "reify_shim".into(),
                            ty::InstanceKind::VTableShim(..) => "vtable_shim".into(),
                            _ => shim,
                        };
                    }
                }
            }
        }
        items.push(("callee", jstr(&self.key(resolved))));
        items.push(("callee_path", jstr(&self.path(resolved))));
        items.push(("crate", jstr(&self.crate_of(resolved))));
        if !shim.is_empty() {
            items.push(("shim", jstr(&shim)));
        }
        let targs: Vec<String> = args.types().map(|t| jstr(&self.ty_str(t))).collect();
        items.push(("targs", jarr(&targs)));
        // closures passed as generic args
        if !resolved.is_local() && self.ext_crates.contains(&self.crate_of(resolved)) {
            if self.ext_seen.insert(resolved) {
                self.ext_queue.push(resolved);
            }
        }
        items
    }

    fn operand(&mut self, body: &Body<'tcx>, tenv: TypingEnv<'tcx>, op: &Operand<'tcx>) -> String {
        let tcx = self.tcx;
        match op {
            Operand::Copy(p) => jobj(&[("k", jstr("copy")), ("pl", self.place(body, p))]),
            Operand::Move(p) => jobj(&[("k", jstr("move")), ("pl", self.place(body, p))]),
            Operand::Constant(c) => {
                let cty = c.const_.ty();
                let mut items: Vec<(&str, String)> = vec![("k", jstr("const")), ("ty", jstr(&self.ty_str(cty)))];
                match cty.kind() {
                    ty::FnDef(did, args) => {
                        let r = self.resolve_fn(tenv, *did, args);
                        items.push(("fn", jobj(&r)));
                    }
                    ty::Bool | ty::Int(_) | ty::Uint(_) | ty::Char => {
                        let r = std::panic::catch_unwind(std::panic::AssertUnwindSafe(|| {
                            c.const_.try_eval_scalar_int(tcx, tenv)
                        }));
                        if let Ok(Some(si)) = r {
                            let size = si.size();
                            let bits = si.to_bits(size);
                            let v = match cty.kind() {
                                ty::Int(_) => {
                                    let sh = 128 - size.bits();
                                    (((bits as i128) << sh) >> sh).to_string()
                                }
                                _ => bits.to_string(),
                            };
                            items.push(("val", jstr(&v)));
                        }
                    }
                    _ => {}
                }
                let s = ty::print::with_no_trimmed_paths!(format!("{}", c.const_));
                let s = if s.len() > 300 { s[..300].to_string() } else { s };
                items.push(("s", jstr(&s)));
                jobj(&items)
            }
            #[allow(unreachable_patterns)]
            _ => jobj(&[("k", jstr("other")), ("s", jstr(&format!("{:?}", op)))]),
        }
    }

    fn rvalue(&mut self, body: &Body<'tcx>, tenv: TypingEnv<'tcx>, rv: &Rvalue<'tcx>) -> String {
        match rv {
            Rvalue::Use(op, ..) => jobj(&[("k", jstr("use")), ("op", self.operand(body, tenv, op))]),
            Rvalue::Repeat(op, _) => jobj(&[("k", jstr("repeat")), ("op", self.operand(body, tenv, op))]),
            Rvalue::Ref(_, bk, p) => {
                let m = matches!(bk, BorrowKind::Mut { .. });
                let fake = matches!(bk, BorrowKind::Fake(_));
                jobj(&[("k", jstr("ref")), ("m", jbool(m)), ("fake", jbool(fake)), ("pl", self.place(body, p))])
            }
            Rvalue::RawPtr(k, p) => jobj(&[
                ("k", jstr("rawptr")),
                ("m", jbool(matches!(k, mir::RawPtrKind::Mut))),
                ("pl", self.place(body, p)),
            ]),
            Rvalue::Cast(kind, op, t) => jobj(&[
                ("k", jstr("cast")),
                ("ck", jstr(&format!("{:?}", kind))),
                ("op", self.operand(body, tenv, op)),
                ("ty", jstr(&self.ty_str(*t))),
            ]),
            Rvalue::BinaryOp(op, ab) => {
                let (a, b) = &**ab;
                jobj(&[
                    ("k", jstr("binop")),
                    ("op", jstr(&format!("{:?}", op))),
                    ("a", self.operand(body, tenv, a)),
                    ("b", self.operand(body, tenv, b)),
                    ("aty", jstr(&self.ty_str(a.ty(&body.local_decls, self.tcx)))),
                ])
            }
            Rvalue::UnaryOp(op, a) => jobj(&[
                ("k", jstr("unop")),
                ("op", jstr(&format!("{:?}", op))),
                ("a", self.operand(body, tenv, a)),
            ]),
            Rvalue::Discriminant(p) => jobj(&[("k", jstr("discr")), ("pl", self.place(body, p))]),
            Rvalue::Aggregate(kind, ops) => {
                let o: Vec<String> = ops.iter().map(|x| self.operand(body, tenv, x)).collect();
                let mut items: Vec<(&str, String)> = vec![("k", jstr("agg"))];
                match &**kind {
                    AggregateKind::Array(_) => items.push(("ak", jstr("array"))),
                    AggregateKind::Tuple => items.push(("ak", jstr("tuple"))),
                    AggregateKind::Adt(did, vi, _, _, active) => {
                        items.push(("ak", jstr("adt")));
                        let adt = self.tcx.adt_def(*did);
                        items.push(("adt", jstr(&self.path(*did))));
                        let v = adt.variant(*vi);
                        items.push(("v", jstr(v.name.as_str())));
                        items.push(("vi", vi.index().to_string()));
                        let names: Vec<String> = match active {
                            Some(f) => vec![jstr(v.fields[*f].name.as_str())],
                            None => v.fields.iter().map(|f| jstr(f.name.as_str())).collect(),
                        };
                        items.push(("fields", jarr(&names)));
                    }
                    AggregateKind::Closure(did, _) => {
                        items.push(("ak", jstr("closure")));
                        items.push(("closure", jstr(&self.key(*did))));
                    }
                    AggregateKind::Coroutine(did, _) | AggregateKind::CoroutineClosure(did, _) => {
                        items.push(("ak", jstr("coroutine")));
                        items.push(("closure", jstr(&self.key(*did))));
                    }
                    AggregateKind::RawPtr(..) => items.push(("ak", jstr("rawptr"))),
                }
                items.push(("ops", jarr(&o)));
                jobj(&items)
            }
            Rvalue::CopyForDeref(p) => jobj(&[
                ("k", jstr("use")),
                ("op", jobj(&[("k", jstr("copy")), ("pl", self.place(body, p))])),
            ]),
            Rvalue::ThreadLocalRef(did) => jobj(&[("k", jstr("tls")), ("p", jstr(&self.path(*did)))]),
            Rvalue::WrapUnsafeBinder(op, _) => jobj(&[("k", jstr("use")), ("op", self.operand(body, tenv, op))]),
            #[allow(unreachable_patterns)]
            _ => jobj(&[("k", jstr("other")), ("s", jstr(&format!("{:?}", rv)))]),
        }
    }

    fn body(&mut self, did: DefId, body: &Body<'tcx>, external: bool) -> String {
        let tcx = self.tcx;
        let tenv = if external {
            TypingEnv::post_analysis(tcx, did)
        } else {
            TypingEnv::post_analysis(tcx, did)
        };
        let mut items: Vec<(&str, String)> = Vec::new();
        items.push(("key", jstr(&self.key(did))));
        items.push(("path", jstr(&self.path(did))));
        items.push(("crate", jstr(&self.crate_of(did))));
        items.push(("external", jbool(external)));
        items.push(("defkind", jstr(&format!("{:?}", tcx.def_kind(did)))));
        if matches!(tcx.def_kind(did), DefKind::Closure | DefKind::InlineConst | DefKind::SyntheticCoroutineBody) {
            items.push(("parent", jstr(&self.key(tcx.parent(did)))));
            items.push(("root", jstr(&self.key(tcx.typeck_root_def_id(did)))));
        }
        items.push(("span", jstr(&self.span(body.span))));
        items.push(("argc", body.arg_count.to_string()));
        // locals
        let mut names: BTreeMap<usize, String> = BTreeMap::new();
        let mut captures: Vec<String> = Vec::new();
        for vdi in body.var_debug_info.iter() {
            if let mir::VarDebugInfoContents::Place(p) = &vdi.value {
                if p.projection.is_empty() {
                    names.entry(p.local.index()).or_insert_with(|| vdi.name.to_string());
                } else if p.local.index() == 1 {
                    captures.push(jobj(&[("name", jstr(vdi.name.as_str())), ("pl", self.place(body, p))]));
                }
            }
        }
        let locals: Vec<String> = body
            .local_decls
            .iter_enumerated()
            .map(|(l, d)| {
                let mut it: Vec<(&str, String)> = vec![("ty", jstr(&self.ty_str(d.ty))), ("tk", self.tyk(d.ty, 4))];
                {
                    use rustc_middle::ty::TypeVisitableExt;
                    use rustc_middle::ty::TypeFlags;
                    // can a value of this type hold a borrow of something else?
                    let hr = d.ty.has_type_flags(
                        TypeFlags::HAS_RE_ERASED
                            | TypeFlags::HAS_FREE_REGIONS
                            | TypeFlags::HAS_RE_BOUND
                            | TypeFlags::HAS_PARAM
                            | TypeFlags::HAS_ALIAS,
                    ) || matches!(d.ty.kind(), ty::RawPtr(..) | ty::Ref(..));
                    if hr {
                        it.push(("hr", jbool(true)));
                    }
                }
                if let Some(n) = names.get(&l.index()) {
                    it.push(("name", jstr(n)));
                }
                if d.mutability.is_mut() {
                    it.push(("mut", jbool(true)));
                }
                jobj(&it)
            })
            .collect();
        items.push(("locals", jarr(&locals)));
        if !captures.is_empty() {
            items.push(("captures", jarr(&captures)));
        }
        // blocks
        let mut blocks: Vec<String> = Vec::new();
        for (_bb, data) in body.basic_blocks.iter_enumerated() {
            let mut stmts: Vec<String> = Vec::new();
            for st in data.statements.iter() {
                match &st.kind {
                    StatementKind::Assign(b) => {
                        let (pl, rv) = &**b;
                        stmts.push(jobj(&[
                            ("k", jstr("assign")),
                            ("pl", self.place(body, pl)),
                            ("rv", self.rvalue(body, tenv, rv)),
                            ("sp", jstr(&self.span(st.source_info.span))),
                            ("exp", jbool(st.source_info.span.from_expansion())),
                        ]));
                    }
                    StatementKind::SetDiscriminant { place, variant_index } => {
                        stmts.push(jobj(&[
                            ("k", jstr("setdiscr")),
                            ("pl", self.place(body, place)),
                            ("vi", variant_index.index().to_string()),
                        ]));
                    }
                    _ => {}
                }
            }
            let term = data.terminator();
            let tsp = term.source_info.span;
            let t = match &term.kind {
                TerminatorKind::Goto { target } => jobj(&[("k", jstr("goto")), ("t", target.index().to_string())]),
                TerminatorKind::SwitchInt { discr, targets } => {
                    let tg: Vec<String> =
                        targets.iter().map(|(v, b)| format!("[{},{}]", jstr(&v.to_string()), b.index())).collect();
                    jobj(&[
                        ("k", jstr("switch")),
                        ("op", self.operand(body, tenv, discr)),
                        ("ty", jstr(&self.ty_str(discr.ty(&body.local_decls, tcx)))),
                        ("targets", jarr(&tg)),
                        ("otherwise", targets.otherwise().index().to_string()),
                        ("sp", jstr(&self.span(tsp))),
                    ])
                }
                TerminatorKind::Return => jobj(&[("k", jstr("return"))]),
                TerminatorKind::Unreachable => jobj(&[("k", jstr("unreachable"))]),
                TerminatorKind::UnwindResume => jobj(&[("k", jstr("resume"))]),
                TerminatorKind::UnwindTerminate(_) => jobj(&[("k", jstr("terminate"))]),
                TerminatorKind::Drop { place, target, .. } => jobj(&[
                    ("k", jstr("drop")),
                    ("pl", self.place(body, place)),
                    ("t", target.index().to_string()),
                ]),
                TerminatorKind::Call { func, args, destination, target, fn_span, .. } => {
                    let a: Vec<String> = args.iter().map(|x| self.operand(body, tenv, &x.node)).collect();
                    let aty: Vec<String> = args
                        .iter()
                        .map(|x| self.tyk(x.node.ty(&body.local_decls, tcx), 3))
                        .collect();
                    jobj(&[
                        ("k", jstr("call")),
                        ("func", self.operand(body, tenv, func)),
                        ("args", jarr(&a)),
                        ("argtys", jarr(&aty)),
                        ("dest", self.place(body, destination)),
                        ("t", jopt(target.map(|b| b.index().to_string()))),
                        ("sp", jstr(&self.span(*fn_span))),
                        ("exp", jbool(tsp.from_expansion())),
                    ])
                }
                TerminatorKind::TailCall { func, args, fn_span } => {
                    let a: Vec<String> = args.iter().map(|x| self.operand(body, tenv, &x.node)).collect();
                    jobj(&[
                        ("k", jstr("tailcall")),
                        ("func", self.operand(body, tenv, func)),
                        ("args", jarr(&a)),
                        ("sp", jstr(&self.span(*fn_span))),
                    ])
                }
                TerminatorKind::Assert { cond, expected, msg, target, .. } => {
                    let mk = match &**msg {
                        mir::AssertKind::BoundsCheck { .. } => "bounds".to_string(),
                        mir::AssertKind::Overflow(op, ..) => format!("overflow:{:?}", op),
                        mir::AssertKind::OverflowNeg(_) => "overflow:Neg".to_string(),
                        mir::AssertKind::DivisionByZero(_) => "divzero".to_string(),
                        mir::AssertKind::RemainderByZero(_) => "remzero".to_string(),
                        _ => "other".to_string(),
                    };
                    jobj(&[
                        ("k", jstr("assert")),
                        ("cond", self.operand(body, tenv, cond)),
                        ("expected", jbool(*expected)),
                        ("msg", jstr(&mk)),
                        ("t", target.index().to_string()),
                        ("sp", jstr(&self.span(tsp))),
                    ])
                }
                TerminatorKind::FalseEdge { real_target, .. } => {
                    jobj(&[("k", jstr("goto")), ("t", real_target.index().to_string())])
                }
                TerminatorKind::FalseUnwind { real_target, .. } => {
                    jobj(&[("k", jstr("goto")), ("t", real_target.index().to_string())])
                }
                TerminatorKind::Yield { resume, .. } => jobj(&[("k", jstr("goto")), ("t", resume.index().to_string())]),
                TerminatorKind::CoroutineDrop => jobj(&[("k", jstr("return"))]),
                TerminatorKind::InlineAsm { .. } => jobj(&[("k", jstr("asm"))]),
            };
            blocks.push(jobj(&[("s", jarr(&stmts)), ("t", t), ("cleanup", jbool(data.is_cleanup))]));
        }
        items.push(("blocks", jarr(&blocks)));
        jobj(&items)
    }

    fn fn_sig(&self, ldid: LocalDefId) -> String {
        let tcx = self.tcx;
        let did = ldid.to_def_id();
        let sig = tcx.fn_sig(did).instantiate_identity().skip_norm_wip().skip_binder();
        let ins: Vec<String> = sig.inputs().iter().map(|t| self.tyk(*t, 3)).collect();
        let ins_s: Vec<String> = sig.inputs().iter().map(|t| jstr(&self.ty_str(*t))).collect();
        let vis = tcx.visibility(did);
        let reachable = tcx.effective_visibilities(()).is_reachable(ldid);
        let mut items: Vec<(&str, String)> = vec![
            ("key", jstr(&self.key(did))),
            ("path", jstr(&self.path(did))),
            ("span", jstr(&self.span(tcx.def_span(did)))),
            ("pub", jbool(vis.is_public())),
            ("reachable", jbool(reachable)),
            ("inputs", jarr(&ins)),
            ("inputs_s", jarr(&ins_s)),
            ("output", self.tyk(sig.output(), 3)),
            ("output_s", jstr(&self.ty_str(sig.output()))),
            ("unsafe", jbool(!sig.safety().is_safe())),
        ];
        if tcx.def_kind(did) == DefKind::AssocFn {
            let parent = tcx.parent(did);
            if let DefKind::Impl { of_trait } = tcx.def_kind(parent) {
                let self_ty = tcx.type_of(parent).instantiate_identity().skip_norm_wip();
                items.push(("impl_self", jstr(&self.ty_head(self_ty))));
                if of_trait {
                    let tr = tcx.impl_trait_ref(parent).instantiate_identity().skip_norm_wip();
                    items.push(("impl_trait", jstr(&self.path(tr.def_id))));
                }
            }
            let ai = tcx.associated_item(did);
            items.push(("has_self", jbool(ai.is_method())));
        }
        jobj(&items)
    }
}

struct UnsafeVisitor<'tcx> {
    tcx: TyCtxt<'tcx>,
    found: Vec<Span>,
}

impl<'tcx> rustc_hir::intravisit::Visitor<'tcx> for UnsafeVisitor<'tcx> {
    type NestedFilter = rustc_middle::hir::nested_filter::All;
    fn maybe_tcx(&mut self) -> Self::MaybeTyCtxt {
        self.tcx
    }
    fn visit_block(&mut self, b: &'tcx rustc_hir::Block<'tcx>) {
        if let rustc_hir::BlockCheckMode::UnsafeBlock(src) = b.rules {
            if matches!(src, rustc_hir::UnsafeSource::UserProvided) {
                self.found.push(b.span);
            }
        }
        rustc_hir::intravisit::walk_block(self, b);
    }
}

struct Cb;

impl Callbacks for Cb {
    fn after_analysis<'tcx>(&mut self, _c: &Compiler, tcx: TyCtxt<'tcx>) -> Compilation {
        let out_dir = match std::env::var("RSSLINT_OUT") {
            Ok(d) => d,
            Err(_) => return Compilation::Continue,
        };
        let crate_name = tcx.crate_name(LOCAL_CRATE).to_string();
        if let Ok(list) = std::env::var("RSSLINT_CRATES") {
            if !list.split(',').any(|c| c.trim() == crate_name) {
                return Compilation::Continue;
            }
        }
        let ext_crates: BTreeSet<String> = std::env::var("RSSLINT_EXT_CRATES")
            .unwrap_or_else(|_| "".into())
            .split(',')
            .map(|s| s.trim().to_string())
            .filter(|s| !s.is_empty())
            .collect();
        let mut ex = Ex { tcx, ext_crates, ext_queue: Vec::new(), ext_seen: std::collections::HashSet::new() };

        // bodies
        let mut bodies: Vec<String> = Vec::new();
        let mut sigs: Vec<String> = Vec::new();
        let keys: Vec<LocalDefId> = tcx.mir_keys(()).iter().copied().collect();
        for ldid in keys.iter() {
            let did = ldid.to_def_id();
            match tcx.def_kind(did) {
                DefKind::Fn | DefKind::AssocFn | DefKind::Closure => {
                    let body = tcx.optimized_mir(did);
                    bodies.push(ex.body(did, body, false));
                    if matches!(tcx.def_kind(did), DefKind::Fn | DefKind::AssocFn) {
                        sigs.push(ex.fn_sig(*ldid));
                    }
                }
                _ => {}
            }
        }
        // external bodies from allowed crates, transitively
        let mut ext_bodies: Vec<String> = Vec::new();
        let mut budget = 4000usize;
        while let Some(did) = ex.ext_queue.pop() {
            if budget == 0 {
                break;
            }
            budget -= 1;
            if !matches!(tcx.def_kind(did), DefKind::Fn | DefKind::AssocFn | DefKind::Closure) {
                continue;
            }
            if !tcx.is_mir_available(did) {
                continue;
            }
            let body = tcx.optimized_mir(did);
            ext_bodies.push(ex.body(did, body, true));
            // closures of external bodies
            for l in body.local_decls.iter() {
                if let ty::Closure(cd, _) = l.ty.kind() {
                    if !cd.is_local() && ex.ext_seen.insert(*cd) {
                        ex.ext_queue.push(*cd);
                    }
                }
            }
        }

        // ADTs
        let mut adts: Vec<String> = Vec::new();
        let mut statics: Vec<String> = Vec::new();
        let mut unsafe_fns: Vec<String> = Vec::new();
        for ldid in tcx.hir_crate_items(()).definitions() {
            let did = ldid.to_def_id();
            match tcx.def_kind(did) {
                DefKind::Struct | DefKind::Enum | DefKind::Union => {
                    let adt = tcx.adt_def(did);
                    let tenv = TypingEnv::post_analysis(tcx, did);
                    let mut variants: Vec<String> = Vec::new();
                    for v in adt.variants().iter() {
                        let mut fields: Vec<String> = Vec::new();
                        for f in v.fields.iter() {
                            let fty = tcx.type_of(f.did).instantiate_identity().skip_norm_wip();
                            let freeze = fty.is_freeze(tcx, tenv);
                            fields.push(jobj(&[
                                ("name", jstr(f.name.as_str())),
                                ("ty", jstr(&ex.ty_str(fty))),
                                ("tk", ex.tyk(fty, 4)),
                                ("freeze", jbool(freeze)),
                                ("pub", jbool(f.vis.is_public())),
                            ]));
                        }
                        variants.push(jobj(&[("name", jstr(v.name.as_str())), ("fields", jarr(&fields))]));
                    }
                    adts.push(jobj(&[
                        ("path", jstr(&ex.path(did))),
                        ("kind", jstr(&format!("{:?}", tcx.def_kind(did)))),
                        ("span", jstr(&ex.span(tcx.def_span(did)))),
                        ("variants", jarr(&variants)),
                    ]));
                }
                DefKind::Static { mutability, .. } => {
                    let sty = tcx.type_of(did).instantiate_identity().skip_norm_wip();
                    let tenv = TypingEnv::post_analysis(tcx, did);
                    statics.push(jobj(&[
                        ("path", jstr(&ex.path(did))),
                        ("span", jstr(&ex.span(tcx.def_span(did)))),
                        ("mut", jbool(mutability.is_mut())),
                        ("ty", jstr(&ex.ty_str(sty))),
                        ("freeze", jbool(sty.is_freeze(tcx, tenv))),
                    ]));
                }
                DefKind::Fn | DefKind::AssocFn => {
                    let sig = tcx.fn_sig(did).instantiate_identity().skip_norm_wip().skip_binder();
                    if !sig.safety().is_safe() {
                        unsafe_fns.push(jobj(&[
                            ("path", jstr(&ex.path(did))),
                            ("span", jstr(&ex.span(tcx.def_span(did)))),
                        ]));
                    }
                }
                _ => {}
            }
        }
        // unsafe blocks / unsafe impls from HIR
        let mut uv = UnsafeVisitor { tcx, found: Vec::new() };
        tcx.hir_walk_toplevel_module(&mut uv);
        let unsafe_blocks: Vec<String> = uv
            .found
            .iter()
            .filter(|s| !s.from_expansion())
            .map(|s| jstr(&ex.span(*s)))
            .collect();
        let unsafe_blocks_expanded: Vec<String> =
            uv.found.iter().filter(|s| s.from_expansion()).map(|s| jstr(&ex.span(*s))).collect();

        let crate_types: Vec<String> =
            tcx.crate_types().iter().map(|c| jstr(&format!("{:?}", c))).collect();
        let is_test = tcx.sess.opts.test;
        let doc = jobj(&[
            ("crate", jstr(&crate_name)),
            ("crate_types", jarr(&crate_types)),
            ("test_harness", jbool(is_test)),
            ("bodies", jarr(&bodies)),
            ("ext_bodies", jarr(&ext_bodies)),
            ("sigs", jarr(&sigs)),
            ("adts", jarr(&adts)),
            ("statics", jarr(&statics)),
            ("unsafe_fns", jarr(&unsafe_fns)),
            ("unsafe_blocks", jarr(&unsafe_blocks)),
            ("unsafe_blocks_expanded", jarr(&unsafe_blocks_expanded)),
        ]);
        let kind = if crate_types.iter().any(|c| c.contains("Executable")) { "bin" } else { "lib" };
        let fname = format!(
            "{}/{}.{}{}.{}.json",
            out_dir,
            crate_name,
            kind,
            if is_test { ".test" } else { "" },
            std::process::id()
        );
        let tmp = format!("{}.tmp", fname);
        std::fs::write(&tmp, doc).expect("rsslint: cannot write fact file");
        std::fs::rename(&tmp, &fname).expect("rsslint: cannot rename fact file");
        Compilation::Continue
    }
}

fn main() {
    let mut args: Vec<String> = std::env::args().collect();
    // RUSTC_WORKSPACE_WRAPPER: argv[1] is the path of the real rustc
    if args.len() > 1 && (args[1].ends_with("rustc") || args[1].contains("/rustc")) {
        args.remove(1);
    }
    let _ = BinOp::Add;
    let code = rustc_driver::catch_with_exit_code(|| {
        rustc_driver::run_compiler(&args, &mut Cb);
    });
    std::process::exit(if code == std::process::ExitCode::SUCCESS { 0 } else { 1 });
}
