use model::base_types::*;
use model::json_serialisation::load_rolling_stock_problem_instance_from_json;
use serde_json::json;

fn instance(shunt_min: u64, type_limit: Option<u64>, seg_limit: Option<u64>, depots: bool) -> serde_json::Value {
    let mut vt = json!({"id":"T","capacity":100,"seats":50});
    if let Some(l)=type_limit { vt["maximalFormationCount"]=json!(l); }
    let mut seg0 = json!({"id":"r0s0","order":0,"origin":"X","destination":"Y","distance":1000,"duration":3600});
    if let Some(l)=seg_limit { seg0["maximalFormationCount"]=json!(l); }
    let mut v = json!({
      "vehicleTypes":[vt],
      "locations":[{"id":"X"},{"id":"Y"},{"id":"Z"}],
      "routes":[
        {"id":"r0","vehicleType":"T","segments":[seg0]},
        {"id":"r1","vehicleType":"T","segments":[{"id":"r1s0","order":0,"origin":"Y","destination":"Z","distance":1000,"duration":3600}]}
      ],
      "departures":[
        {"id":"d0","route":"r0","segments":[{"id":"A","routeSegment":"r0s0","departure":"2023-07-24T08:00:00","passengers":50,"seated":40}]},
        {"id":"d1","route":"r1","segments":[{"id":"B","routeSegment":"r1s0","departure":"2023-07-24T09:00:00","passengers":50,"seated":40}]}
      ],
      "deadHeadTrips":{"indices":["X","Y","Z"],"durations":[[0,600,600],[600,0,600],[600,600,0]],"distances":[[0,1000,1000],[1000,0,1000],[1000,1000,0]]},
      "parameters":{"shunting":{"minimalDuration":shunt_min,"deadHeadTripDuration":300},
         "costs":{"staff":1,"serviceTrip":1,"maintenance":0,"deadHeadTrip":3,"idle":1}}
    });
    if depots {
        v["depots"] = json!([{"id":"dX","location":"X","capacity":0,"allowedTypes":[{"vehicleType":"T"}]}]);
    }
    v
}

fn main() {
    let which = std::env::args().nth(1).unwrap_or_default();
    if which == "d1" {
        let nw = load_rolling_stock_problem_instance_from_json(instance(0, Some(2), None, false));
        let vt = VehicleTypeIdx::from(0);
        let trips: Vec<_> = nw.service_nodes(vt).collect();
        let (a,b) = (trips[0], trips[1]);
        println!("can_reach(A,B)={} succ(A) has B={} pred(B) has A={}", nw.can_reach(a,b),
            nw.successors(vt,a).any(|n| n==b), nw.predecessors(vt,b).any(|n| n==a));
    }
    if which == "d2" {
        let nw = load_rolling_stock_problem_instance_from_json(instance(0, None, Some(2), false));
        let vt = VehicleTypeIdx::from(0);
        let trips: Vec<_> = nw.service_nodes(vt).collect();
        println!("limit for A (type None, seg Some(2)) = {:?}", nw.maximal_formation_count_for(trips[0]));
    }
    if which == "solve" {
        let out = server::solve_instance(instance(0, Some(2), None, false));
        println!("{}", serde_json::to_string_pretty(&out["objectiveValue"]).unwrap());
    }
    if which == "d5" {
        let mut inst = instance(600, Some(1), None, false);
        inst["departures"][1]["route"] = json!("r0");
        inst["departures"][1]["segments"][0]["routeSegment"] = json!("r0s0");
        inst["departures"][1]["segments"][0]["departure"] = json!("2023-07-24T08:00:00");
        inst["maintenanceSlots"] = json!([
          {"id":"M1","location":"Y","start":"2023-07-24T10:00:00","end":"2023-07-24T11:00:00","trackCount":1},
          {"id":"M2","location":"Y","start":"2023-07-24T10:00:00","end":"2023-07-24T11:00:00","trackCount":1}]);
        inst["parameters"]["maintenance"] = json!({"maximalDistance": 1500});
        let out = server::solve_instance(inst);
        println!("{}", serde_json::to_string_pretty(&out["objectiveValue"]).unwrap());
        println!("{}", serde_json::to_string(&out["schedule"]["fleet"][0]["vehicleCycles"]).unwrap());
    }
    if which == "d789" {
        use solution::test_utilities::*;
        use solution::transition::Transition;
        use solution::path::Path;
        let d = init_test_data();
        let s = default_schedule(&d);
        // D7: replace transitions by one where every vehicle is in the same cycle order reversed -> different violation?
        let t_old = s.next_day_transition_of(d.vt1).clone();
        println!("old: cycles={:?} viol={} sched.viol={}", t_old.cycles_iter().map(|c| c.get_vec().clone()).collect::<Vec<_>>(), t_old.maintenance_violation(), s.maintenance_violation());
        // move vehicle 0 into its own new cycle: remove + add_vehicle_to_own_cycle
        let v0 = VehicleIdx::vehicle_from(0);
        let t2 = t_old.move_vehicle(v0, 1, s.get_tours(), &d.network);
        println!("new: cycles={:?} viol={}", t2.cycles_iter().map(|c| c.get_vec().clone()).collect::<Vec<_>>(), t2.maintenance_violation());
        let mut m = im::HashMap::new();
        m.insert(d.vt1, t2.clone());
        m.insert(d.vt2, s.next_day_transition_of(d.vt2).clone());
        let s2 = s.set_next_day_transitions(m);
        println!("D7: after set_next_day_transitions: cached sched.viol={} sum of transitions={}", s2.maintenance_violation(),
            s2.next_day_transition_of(d.vt1).maintenance_violation()+s2.next_day_transition_of(d.vt2).maintenance_violation());

        // D8: empty cycle reuse
        let v1 = VehicleIdx::vehicle_from(1);
        let v2 = VehicleIdx::vehicle_from(2);
        let tours = s.get_tours();
        // start: t2 has cycles [[1,2] or similar, [0]] ; make a cycle empty then refill it through add_vehicle_at_the_end
        let show = |t: &Transition, tag: &str| println!("{}: {:?}", tag, t.cycles_iter().map(|c| c.get_vec().clone()).collect::<Vec<_>>());
        show(&t2, "t2");
        // find cycle idx of v0
        let t2 = t_old.clone();
        let idx_v0 = 0; let idx_other = 1;
        let t3 = t2.move_vehicle(v0, idx_other, tours, &d.network); // cycle idx_v0 now empty (registered as empty)
        show(&t3, "t3 (v0 moved away, its cycle empty)");
        let t4 = t3.move_vehicle(v1, idx_v0, tours, &d.network); // refill the empty cycle via add_vehicle_at_the_end
        show(&t4, "t4 (v1 moved into the empty cycle)");
        // now a new vehicle arrives in its own cycle: simulate by removing v2 and re-adding to own cycle
        let t6 = t4.add_vehicle_to_own_cycle(VehicleIdx::vehicle_from(7), s.tour_of(v2).unwrap(), &d.network);
        show(&t6, "D8: t6 (v2 re-added to own cycle) -- v1 must still be present");
        let all: Vec<_> = t6.cycles_iter().flat_map(|c| c.get_vec().clone()).collect();
        println!("D8: vehicles in cycles = {:?}", all);

        // D9: insert_path with Infinity
        let (s_over, v_over) = {
            // spawn a vehicle on the overflow depot explicitly
            s.spawn_vehicle_for_path(d.vt1, vec![d.start_overflow_depot, d.trip45_fast, d.end_overflow_depot]).unwrap()
        };
        println!("overflow tour dead_head_distance = {}", s_over.tour_of(v_over).unwrap().dead_head_distance());
        let mut res = None;
        for (sd, ed) in [(d.start_depot1,d.end_depot1),(d.start_depot2,d.end_depot2),(d.start_depot3,d.end_depot3),(d.start_depot4,d.end_depot4),(d.start_depot5,d.end_depot5)] {
            let p = Path::new(vec![sd, d.trip12, ed], d.network.clone()).unwrap().unwrap();
            if let Ok(r) = s_over.add_path_to_vehicle_tour(v_over, p) { res = Some(r); break; }
        }
        let (s9, _) = res.unwrap();
        let t9 = s9.tour_of(v_over).unwrap();
        println!("D9: after inserting a path with real depots: tour = {} cached dead_head_distance = {}", t9, t9.dead_head_distance());
        let r = std::panic::catch_unwind(|| t9.verify_consistency());
        println!("D9: verify_consistency ok = {}", r.is_ok());
    }
    if which == "d16" {
        use solution::{Schedule, path::Path};
        let nw = load_rolling_stock_problem_instance_from_json(instance(0, Some(2), None, false));
        let vt = VehicleTypeIdx::from(0);
        let trips: Vec<_> = nw.service_nodes(vt).collect();
        let (a,b) = (trips[0], trips[1]);
        let s = Schedule::empty(nw.clone());
        let (s1, v) = s.spawn_vehicle_for_path(vt, vec![a]).unwrap();
        let (s2, dropped) = s1.add_path_to_vehicle_tour(v, Path::new_from_single_node(b, nw.clone())).unwrap();
        println!("D16: can_reach(A,B)={} tour after inserting B: {} dropped: {}", nw.can_reach(a,b), s2.tour_of(v).unwrap(), dropped.map(|p| p.to_string()).unwrap_or("-".into()));
        let (s3, v2) = s.spawn_vehicle_for_path(vt, vec![b]).unwrap();
        let (s4, dropped) = s3.add_path_to_vehicle_tour(v2, Path::new_from_single_node(a, nw.clone())).unwrap();
        println!("D17: tour after inserting A before B: {} dropped: {}", s4.tour_of(v2).unwrap(), dropped.map(|p| p.to_string()).unwrap_or("-".into()));
    }
    if which == "d3" {
        // unbounded type, demand needs 3 vehicles per trip, real depot capacity 0
        let mut inst = instance(600, None, None, true);
        inst["departures"][0]["segments"][0]["passengers"] = json!(300);
        inst["departures"][1]["segments"][0]["passengers"] = json!(300);
        let out = server::solve_instance(inst);
        println!("{}", serde_json::to_string_pretty(&out["objectiveValue"]).unwrap());
    }
}
