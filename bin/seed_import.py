#!/usr/bin/env python3
"""seed_import.py <seeds_in_dir> <confirm_results_dir> <repo_commit>

Copies every seeded change that bin/seed_confirm.py confirmed into /verif/seeded/<id>/ (patch.diff, the demonstration,
meta.json with what the change needs to manifest and what was run to confirm it)."""
import json
import os
import shutil
import sys

src, conf, commit = sys.argv[1:4]
n = 0
for sid in sorted(os.listdir(src)):
    cj = os.path.join(conf, sid + ".json")
    if not os.path.exists(cj):
        continue
    c = json.load(open(cj))
    if not c.get("confirmed"):
        print("skip (not confirmed):", sid)
        continue
    m = json.load(open(os.path.join(src, sid, "meta.json")))
    dst = os.path.join("/verif/seeded", sid)
    os.makedirs(dst, exist_ok=True)
    for f in os.listdir(os.path.join(src, sid)):
        if f != "meta.json":
            shutil.copy(os.path.join(src, sid, f), os.path.join(dst, f))
    meta = {
        "id": sid, "property": m.get("property", sid[:3]), "summary": m.get("summary"), "files": m.get("files"),
        "needs_to_manifest": m.get("needs_to_manifest"), "demo_location": m.get("demo_location"),
        "demo_cmd": c.get("demo_cmd"),
        "author": "independent sub-agent given only the property text and its own scratch worktree (later round: written after "
                  "checks of earlier rounds existed, and never shown them)",
        "confirmed_by_me": {
            "against_repo_commit": commit,
            "how": "bin/seed_confirm.py: scratch copy of /repo (rsync, no .git/target), demo placed at demo_location; (1) demo without patch, "
                   "(2) patch -p1, cargo build --workspace --offline, (3) cargo test --workspace --lib --offline (the 53 baseline tests), (4) demo with patch",
            "demo_without_patch": "pass" if c["demo_without_patch"]["rc"] == 0 else "FAILS",
            "build_with_patch": "ok" if c["build_with_patch"]["rc"] == 0 else "FAILS",
            "baseline_with_patch": "%s passed, %s failed" % (c["baseline_with_patch"].get("passed"), c["baseline_with_patch"].get("failed")),
            "demo_with_patch": "fails (rc %s)" % c["demo_with_patch"]["rc"],
            "demo_failure_excerpt": c["demo_with_patch"].get("tail", "")[-700:],
        },
        "agent_verification": m.get("verified"),
    }
    json.dump(meta, open(os.path.join(dst, "meta.json"), "w"), indent=1)
    n += 1
print("imported", n)
