#!/usr/bin/env python3
"""Regenerates /verif/MANIFEST.json from the table below (single source of truth)."""
import json
import os

VERIF = os.path.dirname(os.path.dirname(os.path.abspath(__file__)))

COMMON_NOTE = ("Trusted base: rustc nightly's MIR (mir-opt-level=0) of the dev profile as exported by the rsslint "
               "driver; dependence slices over-approximate (a missing dependence is real, a present one may be "
               "spurious); crates outside the workspace are trusted except the rapid_solve bodies that are read. "
               "Decides necessary structural conditions on all paths of the analysed functions, not the behaviour "
               "as values.")

CHECKS = {
    "C01": ("static analysis: closed producer set of Tour (who-may-construct/call), decision slices of every producer, "
            "abstract interpretation of the dummy-provider type check, shape/inputs of can_reach, flow arcs along predecessors",
            "Decides the representation-invariant argument behind feasible itineraries on all paths: who can build a "
            "Tour, which tests each producer's decision depends on, type guards in front of every operation that gives a "
            "vehicle new nodes, and the documented timing rule's shape and inputs. Value-level correctness of the "
            "position searches is not decided.", "5 C01"),
    "C03": ("static analysis: field provenance tables of all output structs (pure data slices), unconditional-in-loop "
            "reporting, dead-head emission condition, formation updates wherever tours change, hop validation of paths and loop form of the insertion position walks",
            "Decides which model quantity each JSON field is filled from, that every segment/slot/vehicle/cycle of the "
            "iterated sets is pushed unconditionally, that dead-head trips are emitted exactly under the location-change "
            "test, that formations follow tour changes, and that the hops dead-head trips are listed for were validated (Path::new tests every hop, both insertion walks evict every unreachable node). 'Exactly once' and equality of views on concrete schedules "
            "are not decided.", "5 C03"),
    "C07": ("static analysis: flow lower-bound provenance, operand pairing in the requirement function, Option-presence "
            "abstract interpretation, objective level order, frame conditions of post-search stages",
            "Decides that trip lower bounds derive from required vehicles capped by the per-trip limit, that the "
            "requirement pairs passengers/capacity and seated/seats, that unserved passengers are the first level and a "
            "sum of both deficits, and that later stages never touch formations. Equality with the instance's lower bound "
            "is a runtime quantity and is not decided.", "5 C07"),
    "C10": ("static analysis: coupled listings, sorted-edit provenance (binary search), changed-vehicle reporting, batched "
            "cycle updates, fresh-id discipline, plus the producer/guard rules of C01, C02 and C03.R3",
            "Decides the structural conditions each invariant rests on for every producer and every path. The invariants "
            "as values on concrete schedules are not decided.", "5 C10"),
    "C17": ("static analysis: positional provenance loader -> constructor -> field -> getter, can_reach shape recogniser, "
            "sorted-map keys, tie-consistent range bounds, overflow depot construction",
            "Decides which input field every model quantity is taken from (with swap detection), the documented shape of "
            "the reachability rule and the tie-consistency of successor/predecessor enumeration. Numeric conversions are "
            "not decided.", "5 C17"),
    "C02": ("static analysis: who-may-construct/who-may-call inventories, guard dependence (control slices), abstract "
            "interpretation of Option presence, flow-bound provenance",
            "Decides on all paths that formations only grow through the guarded replacement function, that the guard "
            "depends on the applicable limit / track count / current count, that the combined limit is absent only if "
            "both limits are absent (4-case table), that every start-depot decision consults capacity, and that flow "
            "bounds use these quantities. Count arithmetic is not decided.", "5 C02"),
    "C06": ("static analysis: guard recognition for usize arithmetic on cycle lengths (MIR dominators / control "
            "dependence), compiler-evaluated constant agreement, None-operand and strict-acceptance checks",
            "Decides three termination/no-panic clauses statically for all inputs: guarded arithmetic on "
            "rotation-cycle lengths, the overflow depot default dominating the flow defaults, unlimited strictly "
            "improving searches. General panic-freedom/termination is NOT claimed.", "5 C06"),
    "C09": ("static analysis: provenance classification of rebuild operands over MIR (coupled-update, lost-update, "
            "Infinity-guard rules)",
            "Decides for every construction site of Schedule/Tour/Transition, on all paths, that caches are rebuilt "
            "together with the data they summarise, that no computed update is dropped, and that Distance deltas are "
            "guarded against Infinity. The values of the deltas are not decided (their signs and operand sides are, see below).", "5 C09"),
    "C12": ("static analysis: hand-back flow (slices), refusal decision slices, tie-consistency recogniser on "
            "normalised comparison operators",
            "Decides that insert_path returns exactly the spliced-out block, that removal refusals are decided on the "
            "documented tests, and that the time prefilters in front of can_reach are strict (tie case). "
            "Longest-prefix/suffix semantics beyond the tie case are not decided.", "5 C12"),
    "C14": ("static analysis: tie-consistency recogniser for BTreeMap range bounds; flow-network wiring provenance",
            "Decides the wiring conditions of the covering circulation (arcs along predecessors incl. ties, bounds, costs, "
            "label/closure mapping, decoding driven by positive flow). Optimality itself is not decidable statically "
            "and is not claimed.", "5 C14"),
    "C04": ("static analysis: indicator/getter pairing and constant names, stage-flow of the final evaluation, coupled-update "
            "classification, source sets of the from-scratch definitions",
            "Decides that each reported component is read from its own cache of the end-depot-aligned schedule, that "
            "the caches are rebuilt together with their data in every producer, and that the definitions use the "
            "documented inputs.", "5 C04"),
    "C05": ("static analysis: provenance of the replace_end_depot argument, unconditional-in-loop control dependence, "
            "stage-flow after the alignment, JSON field provenance",
            "Decides that every vehicle's new end depot derives from its cycle successor's start depot, unconditionally "
            "for all vehicles, that depot replacement always rebuilds the tour, that no stage rewrites the schedule after "
            "the alignment, and that JSON cycles/vehicles come from the same schedule. Index arithmetic is not decided.", "5 C05"),
    "C08": ("static analysis: constant/aggregate provenance of objective levels, None-operand and strict-acceptance "
            "checks on rapid_solve MIR, stage-flow of the search start",
            "Decides level order and coefficients, the unlimited strictly-improving search configuration, the start "
            "from the improved min-cost-flow solution, and neighbourhood completeness. The trajectory/fixpoint as an "
            "execution is not decided; the runtime hook suggested by the property is not used.", "5 C08"),
    "C11": ("static analysis: signature/ownership inventory, compiler Freeze verdict + type walk, unsafe/static inventory, "
            "error-discipline (T11), who-may-construct",
            "Decides that candidate generation cannot modify its base (no &mut access, no interior mutability, no globals, "
            "no unsafe), that modification errors are propagated inside the swaps, and that candidates come only from the "
            "public modification API. Validity is C10, cache truth is C09, panic-freedom is not decided.", "5 C11"),
    "C13": ("static analysis: per-producer frame conditions from provenance classification, type-directed hand-back flow, "
            "callee identity of formation edits",
            "Decides which fields each modification leaves untouched, that every path cut out of a tour is returned, "
            "parked or re-inserted, that emptied vehicles are replaced/deleted, and how formations are edited. The effect "
            "on concrete node sets is not decided.", "5 C13"),
    "C15": ("static analysis: coupled/lost-update classification of Transition producers, constant agreement of the "
            "Infinity substitute, guarded arithmetic, objective order and strict acceptance",
            "Decides the structural bookkeeping conditions for all producers and the shape of the optimisation "
            "(violation before counter, strictly improving, unlimited). The values of the counters are not decided.", "5 C15"),
    "C16": ("static analysis: stage-flow (backward dependence slices over MIR of the two pipeline functions)",
            "Decides on all paths that each pipeline stage's result feeds the next stage's named operand up to the "
            "returned JSON, in server::solve_instance and its sibling internal::run.", "5 C16"),
    "C18": ("static analysis: constant route table and layer order from MIR of the server binary, handler result "
            "provenance, shared-state inventory",
            "Decides the route table, that the served router carries routes and layer in the right order, that the "
            "solve handler answers with solve_instance of its own body, and that no mutable state is shared. "
            "Interleavings, fault isolation and sockets are runtime properties and are not decided.", "5 C18"),
}

# additions after the mutation analysis (DESIGN §3.2 shape.py / formulas.py, §7.4): appended to technique and level text
FORMULA = ("; expression shapes read off MIR by direct provenance (documented formulas, signed terms of incremental updates), small truth tables "
           "by abstract interpretation, loop must-pass-through; reports are cross-checked on a second view with unknown helpers inlined")
EXTRA_TEXT = {
    "C01": " Also decided: the formula, forbid rule and depot-kind table of can_reach, the turnaround formula with its same-place test, the receiver type table.",
    "C02": " Also decided: comparator direction of the guards, which limit the combined value is taken from, capacity_for capped by the total, no Ok before the capacity test, both kind tests dominate every growth site, a departure reads the limit of its own route segment, the usage queries answer from the usage map for every depot and every type.",
    "C03": " Also decided: polarity of the dead-head listing and the two documented placements of a dead-head trip, the three formation edits (unconditional push, order-keeping replace/remove), no dropping adaptor in front of a formation update.",
    "C04": " Also decided: the signs and operand sides of every incremental update (tour figures, schedule costs, transition totals and cycle counters), the maintenance-counter and idle-time formulas, unscaled indicators. Values are not decided.",
    "C05": " Also decided: the successor formula (p+1 mod len) and that the initial clustering loses no vehicle.",
    "C06": " Also decided: overflow capacity formula, connection bound is a max, arc directions, depot-kind table of can_reach, 3-opt operands and index order.",
    "C07": " Also decided: formation and vehicle seats/capacity getters, trip upper bound, the unserved cache rebuilt with the formations, the growth guards read the limit that applies to the node.",
    "C08": " Also decided: the figures the levels compare are maintained with the right signs (tour, cost, transition rules shared with C09/C15) and handed over unscaled.",
    "C09": " Also decided since §7.4: signs and operand sides of every delta (what leaves is subtracted, what comes is added), depot neighbours, the maintenance flag as a truth table, helper-maintained caches updated on every path, fallbacks in the unit of the value they replace, the batch map outliving the batch, the clustering (links, positive parts), the violation cached with new transitions. Values inside the position arithmetic of the segment helpers are not decided.",
    "C11": " Also decided: strict free-track filter in front of the workload sort, hitch-hiking refuses conflicts, swap steps build on each other, receiver type check for dummy providers, one substitute for infinity.",
    "C12": " Also decided: bisection stop test and which node time each search reads, reference times, both halves of the gap-test guard, loop form of the walks, depots of a path stripped independently for dummy tours, Path::new validates every hop, the two node orders, Infinity - x = Infinity, the gap test reached for dummy and real tours.",
    "C13": " Also decided: remove_segment guard, enumerate-before-filter in fit_path_into_tour, overwrite index of the overflow fallback, order-keeping formation edits, None-only-if-reachable of the two position searches, hitch-hiking refuses conflicts, the steps of a swap build on each other, the depot test of update_train_formation.",
    "C14": " Also decided: a trip arc's lower bound is min(required vehicles, per-trip formation limit) from the same limit getter as its upper bound; direction of all four arc kinds, connection bound/cost forms, decoder key provenance, zero-flow polarity, end depots decoded, spawning cost over all five rates, idle cost waived only next to a depot, the range sentinels are the extremes of the derived NodeIdx order, the turnaround tables, Nowhere infinitely far in both directions, the decoder takes the tour it continues, every vehicle type is solved, durations priced in seconds.",
    "C15": " Also decided since §7.4: cycle neighbours (p-1/p+1 with wrap tests, end/start depots), counter deltas with signs, total signs and clamping, 3-opt transfer operands, the four slices of the new cycle, index order i<j<k, lookup written on every path.",
    "C16": " Also decided: maintenance_considered polarity, successor formula with wrap-around, transitions stored (not merged).",
    "C17": " Also decided: network formulas and predicates (can_reach, turnaround, idle time, duration, Nowhere => Infinity, type compatibility), overflow capacity formula, loader completeness loops, zero-passenger substitution.",
    "C18": " Also decided: body limit lifted, multi-threaded runtime, get_id answers for Nowhere, dead-head matrix loaded under its own indices, cycle neighbours of the incremental counters reported with the answer.",
}

NA = {}

ALL = ["C%02d" % i for i in range(1, 19)]


def main():
    checks = []
    for pid in ALL:
        if pid not in CHECKS:
            continue
        tech, text, ref = CHECKS[pid]
        tech = tech + FORMULA
        text = text + EXTRA_TEXT.get(pid, "")
        checks.append({
            "property_id": pid,
            "quick_cmd": "bin/check %s quick" % pid,
            "thorough_cmd": "bin/check %s thorough" % pid,
            "evidence_file": "evidence/%s.json" % pid,
            "replay_cmd_template": "bin/check %s quick --replay {path}" % pid,
            "engine": "rsslint",
            "level_claimed": {"category": "other", "text": text, "design_ref": "DESIGN.md §" + ref},
            "level_note": COMMON_NOTE,
            "technique": tech,
        })
    na = []
    for pid in ALL:
        if pid not in CHECKS:
            na.append({"property_id": pid, "reason": NA.get(pid, "static check under construction in this session; not claimed until its rules are committed")})
    m = {
        "version": 1,
        "setup_cmd": "cd rsslint && CARGO_NET_OFFLINE=true cargo build --release --offline",
        "hooks": {
            "guard": "rssched_verif",
            "enable": "none needed: the analysis reads the unmodified sources (cfg rssched_verif is reserved and unused)",
            "baseline_off_cmd": "cd /repo && cargo test --workspace --no-fail-fast --offline",
            "source_commits": [],
            "add_only": True,
        },
        "engines": [{
            "name": "rsslint",
            "path": "rsslint/ (rustc_private MIR exporter) + rss/ (dependence analysis and rules) + bin/check",
            "serves_properties": [c["property_id"] for c in checks],
            "kind_free_text": "custom static analysis over rustc MIR: expression shapes and signed terms, truth tables by abstract interpretation, second (inlined) view; PDG slicing with inter-procedural summaries, "
                              "provenance classification, guard/constant recognisers, who-may-construct inventories",
        }],
        "checks": checks,
        "not_applicable": na,
        "notes": "All checks are static (no execution of the solver). Genuine defects found and repaired are listed in "
                 "known_findings.json (fixed entries) and DESIGN.md §6.",
    }
    with open(os.path.join(VERIF, "MANIFEST.json"), "w") as fh:
        json.dump(m, fh, indent=1)
    print("MANIFEST.json: %d checks, %d not applicable" % (len(checks), len(na)))


if __name__ == "__main__":
    main()
