#!/usr/bin/env python3
"""seedtest.py <seeds_dir> [ids,comma,separated] [-j N]

Applies each seeded change to a scratch copy of /repo's working tree (under /var/tmp, removed afterwards), runs
the static rules of ALL properties on it and prints which obligations report it.  Static only: nothing is executed."""
import json
import os
import shutil
import subprocess
import sys
from concurrent.futures import ProcessPoolExecutor

sys.path.insert(0, os.path.dirname(os.path.dirname(os.path.abspath(__file__))))
sys.dont_write_bytecode = True


RUN = str(os.getpid())      # scratch directories are per run, so that concurrent runs do not remove each other's


def one(args):
    seeds_dir, sid, run = args
    os.environ["RSS_CACHE"] = "/var/tmp/rss_cache_seedtest.%s" % run
    from rss import engine
    work = "/var/tmp/seedtest.%s/%s" % (run, sid)
    shutil.rmtree(work, ignore_errors=True)
    os.makedirs(work)
    subprocess.run(["rsync", "-a", "--exclude", "target", "--exclude", ".git", "/repo/", work + "/"], check=True)
    r = subprocess.run("patch -p1 --no-backup-if-mismatch < %s" % os.path.join(seeds_dir, sid, "patch.diff"),
                       cwd=work, shell=True, stdout=subprocess.PIPE, stderr=subprocess.STDOUT, text=True)
    if r.returncode != 0:
        shutil.rmtree(work, ignore_errors=True)
        return sid, {"error": "patch does not apply: " + r.stdout[-300:]}
    try:
        res = engine.evaluate_tree(work)
    except Exception as e:
        res = {"error": repr(e)}
    shutil.rmtree(work, ignore_errors=True)
    return sid, res


def main():
    seeds_dir = sys.argv[1]
    only = None
    jobs = 6
    a = sys.argv[2:]
    while a:
        x = a.pop(0)
        if x == "-j":
            jobs = int(a.pop(0))
        else:
            only = x.split(",")
    seeds = sorted(d for d in os.listdir(seeds_dir) if os.path.isdir(os.path.join(seeds_dir, d)) and os.path.exists(os.path.join(seeds_dir, d, "patch.diff")))
    if only:
        seeds = [s for s in seeds if s in only or s.split("_")[0] in only]
    summary = {}
    with ProcessPoolExecutor(jobs) as ex:
        for sid, res in ex.map(one, [(seeds_dir, s, RUN) for s in seeds]):
            if "error" in res:
                print("%-8s ERROR %s" % (sid, res["error"]))
                summary[sid] = {"error": res["error"]}
                continue
            hits = []
            for prop, r in sorted(res.items()):
                for v in r["violated"]:
                    hits.append(v)
                if r.get("error"):
                    hits.append((prop + "/CRASH", "crash", "", r["error"][-200:]))
            own = sid[:3]
            print("%-8s %s" % (sid, "DETECTED by " + ", ".join(sorted({h[0] for h in hits})) if hits else "missed"))
            summary[sid] = {"detected": bool(hits), "by": sorted({h[0] for h in hits}), "own_property": any(h[0].startswith(own + "/") for h in hits),
                            "details": [list(h) for h in hits][:6]}
    shutil.rmtree("/var/tmp/seedtest.%s" % RUN, ignore_errors=True)
    shutil.rmtree("/var/tmp/rss_cache_seedtest.%s" % RUN, ignore_errors=True)
    out = os.environ.get("SEEDTEST_OUT")
    if out:
        json.dump(summary, open(out, "w"), indent=1)
    n = sum(1 for s in summary.values() if s.get("detected"))
    print("== %d/%d seeded changes detected" % (n, len(summary)))


if __name__ == "__main__":
    main()
