#!/usr/bin/env python3
"""mutate.py gen                      -> prints the number of syntactic mutants of the core source files
mutate.py static <out.json> [-j N] [--only <substr>] [--limit N] [--sample K]
mutate.py tests  <in.json> <out.json> [-j N]

A development aid, NOT a registered check: it measures where the rules are blind.  `static` applies one small
syntactic mutation at a time (comparison flips, swapped simple arguments, +/- and min/max swaps, dropped `!`, dropped
single-line mutating statements, first/last and start/end swaps) to a scratch copy of /repo's working tree (under
/var/tmp, removed afterwards), lets the exporter compile it (mutants that do not compile are discarded) and runs the
static rules of all properties on it.  `tests` then runs the 53 baseline tests on the mutants no rule reported, because
only a mutant that also survives the tests is a realistic blind spot.  Survivors are triaged by reading (many are
equivalent or harmless); a rule is written only for those that break a property."""
import json
import os
import random
import re
import shutil
import subprocess
import sys
from concurrent.futures import ProcessPoolExecutor

sys.path.insert(0, os.path.dirname(os.path.dirname(os.path.abspath(__file__))))
sys.dont_write_bytecode = True
REPO = "/repo"
FILES = [
    "model/src/network.rs", "model/src/network/depot.rs", "model/src/network/nodes.rs", "model/src/json_serialisation/mod.rs",
    "model/src/locations.rs", "model/src/vehicle_types.rs", "model/src/base_types/location.rs", "model/src/config.rs",
    "solution/src/tour.rs", "solution/src/tour/modifications.rs", "solution/src/schedule.rs", "solution/src/schedule/modifications.rs",
    "solution/src/transition.rs", "solution/src/transition/modifications.rs", "solution/src/transition/transition_cycle.rs",
    "solution/src/train_formation.rs", "solution/src/json_serialisation.rs", "solution/src/path.rs", "solution/src/segment.rs",
    "solution/src/vehicle.rs",
    "solver/src/min_cost_flow_solver.rs", "solver/src/objective.rs", "solver/src/local_search/mod.rs",
    "solver/src/local_search/neighborhood/mod.rs", "solver/src/local_search/neighborhood/swaps.rs",
    "solver/src/local_search/neighborhood/swaps/path_exchange.rs", "solver/src/local_search/neighborhood/swaps/add_trip_for_hitch_hiking.rs",
    "solver/src/local_search/neighborhood/swaps/remove_single_node.rs", "solver/src/local_search/neighborhood/swaps/spawn_vehicle_for_maintenance.rs",
    "solver/src/transition_cycle_tsp/mod.rs", "solver/src/transition_cycle_tsp/transition_cycle_neighborhood.rs",
    "solver/src/transition_cycle_tsp/transition_cycle_objective.rs", "solver/src/transition_local_search/mod.rs",
    "solver/src/transition_local_search/transition_neighborhood.rs", "solver/src/transition_local_search/transition_objective.rs",
    "server/src/lib.rs", "server/src/main.rs", "internal/src/lib.rs",
]
SKIP_LINE = re.compile(r"^\s*(//|#\[|use |pub use |mod |pub mod |\}|\{|$)|println!|info!|debug!|warn!|format!|panic!|expect\(|assert|write!|print!|eprintln!")

OPS = [
    ("cmp", re.compile(r" (<=|>=|<|>|==|!=) "), {"<=": "<", "<": "<=", ">=": ">", ">": ">=", "==": "!=", "!=": "=="}),
    ("arith", re.compile(r" (\+|-) (?!>)"), {"+": "-", "-": "+"}),
    ("logic", re.compile(r" (&&|\|\|) "), {"&&": "||", "||": "&&"}),
    ("minmax", re.compile(r"\.(min|max)\("), {"min": "max", "max": "min"}),
    ("firstlast", re.compile(r"\.(first|last)\(\)"), {"first": "last", "last": "first"}),
    ("startend", re.compile(r"\b(start|end)_(depot|location|time|node|pos|position)\b"), None),
    ("bool", re.compile(r"\b(true|false)\b"), {"true": "false", "false": "true"}),
    ("plusone", re.compile(r" (\+|-) 1\b"), None),
    ("not", re.compile(r"(?<![=!<>])!(?=[a-z_(])"), None),
    ("swapargs", re.compile(r"\((\*?&?[a-z_][a-z_0-9\.]*), (\*?&?[a-z_][a-z_0-9\.]*)\)"), None),
    ("someself", re.compile(r"\bself\.([a-z_]+)\b(?!\()"), None),
]
FIELD_SIBS = {"useful_duration": "service_distance", "service_distance": "dead_head_distance", "dead_head_distance": "service_distance",
              "total_maintenance_violation": "total_maintenance_counter", "total_maintenance_counter": "total_maintenance_violation",
              "dummy_tours": "tours", "dummy_ids_sorted": "vehicle_ids_grouped_and_sorted", "dummy_counter": "vehicle_counter",
              "vehicle_counter": "dummy_counter"}


def gen():
    out = []
    for f in FILES:
        p = os.path.join(REPO, f)
        if not os.path.exists(p):
            continue
        lines = open(p).read().split("\n")
        in_test = False
        for ln, line in enumerate(lines):
            if "#[cfg(test)]" in line:
                # `#[cfg(test)] mod tests;` only declares a test module in another file; an inline `mod tests {` starts test code
                nxt = lines[ln + 1] if ln + 1 < len(lines) else ""
                if not nxt.strip().endswith(";"):
                    in_test = True
            if in_test or SKIP_LINE.search(line):
                continue
            code = line.split("//")[0]
            if '"' in code:
                continue
            for name, rx, table in OPS:
                for m in rx.finditer(code):
                    if name == "startend":
                        rep = ("end" if m.group(1) == "start" else "start") + "_" + m.group(2)
                    elif name == "plusone":
                        rep = ""
                    elif name == "not":
                        rep = ""
                    elif name == "swapargs":
                        if m.group(1) == m.group(2):
                            continue
                        rep = "(%s, %s)" % (m.group(2), m.group(1))
                    elif name == "someself":
                        sib = FIELD_SIBS.get(m.group(1))
                        if not sib:
                            continue
                        rep = "self." + sib
                    else:
                        rep = code[m.start():m.end()].replace(m.group(1), table[m.group(1)])
                    new = code[:m.start()] + rep + code[m.end():] + line[len(code):]
                    out.append({"file": f, "line": ln + 1, "op": name, "before": line.strip(), "after": new.strip(), "new": new})
            # dropped single-line mutating statement
            if re.match(r"^\s*[a-z_\.]+\.(insert|push|remove|retain|extend|push_back|sort|sort_by_key|pop|swap_remove|truncate)\(.*\);\s*$", code) \
                    and "let " not in code:
                out.append({"file": f, "line": ln + 1, "op": "dropstmt", "before": line.strip(), "after": "(deleted)", "new": ""})
    for i, m in enumerate(out):
        m["id"] = "M%04d" % i
    return out


def one_static(args):
    m, run = args
    os.environ["RSS_CACHE"] = "/var/tmp/rss_cache_mut.%s" % run
    from rss import engine
    work = "/var/tmp/mut.%s/%s" % (run, m["id"])
    shutil.rmtree(work, ignore_errors=True)
    os.makedirs(work)
    subprocess.run(["rsync", "-a", "--exclude", "target", "--exclude", ".git", REPO + "/", work + "/"], check=True)
    p = os.path.join(work, m["file"])
    lines = open(p).read().split("\n")
    lines[m["line"] - 1] = m["new"]
    open(p, "w").write("\n".join(lines))
    res = {k: m[k] for k in ("id", "file", "line", "op", "before", "after")}
    try:
        import io
        import contextlib
        err = io.StringIO()
        with contextlib.redirect_stderr(err):
            r = engine.evaluate_tree(work)
        hits = sorted({v[0] for pr in r.values() for v in pr["violated"]})
        crashes = [p_ for p_, pr in r.items() if pr.get("error")]
        res["status"] = "detected" if hits else "silent"
        res["by"] = hits[:8]
        if crashes:
            res["crash"] = crashes
    except RuntimeError:
        res["status"] = "nocompile"
    except Exception as e:
        res["status"] = "error"
        res["error"] = repr(e)[:200]
    shutil.rmtree(work, ignore_errors=True)
    # the facts of a mutant are never needed again
    shutil.rmtree("/var/tmp/rss_cache_mut.%s" % run, ignore_errors=True) if False else None
    return res


def one_test(args):
    m, run, w = args
    work = "/var/tmp/muttest.%s/w%d" % (run, w)
    os.makedirs(work, exist_ok=True)
    subprocess.run(["rsync", "-a", "--delete", "--exclude", "target", "--exclude", ".git", REPO + "/", work + "/"], check=True)
    p = os.path.join(work, m["file"])
    lines = open(p).read().split("\n")
    lines[m["line"] - 1] = m["new"]
    open(p, "w").write("\n".join(lines))
    os.utime(p, None)
    env = dict(os.environ, CARGO_NET_OFFLINE="true", CARGO_TARGET_DIR="/var/tmp/muttest.%s/target%d" % (run, w))
    # a mutant that makes a test loop for ever is killed by the tests just as well; the whole process group is removed on timeout
    import signal
    pr = subprocess.Popen("cargo test --workspace --lib --offline -q 2>&1 | tail -15", cwd=work, shell=True, text=True, env=env,
                          stdout=subprocess.PIPE, start_new_session=True)
    try:
        out, _ = pr.communicate(timeout=420)
    except subprocess.TimeoutExpired:
        out = "TIMEOUT"
    try:
        os.killpg(pr.pid, signal.SIGKILL)
    except Exception:
        pass
    ok = "test result: FAILED" not in out and "error" not in out.lower() and "TIMEOUT" not in out and out.count("test result: ok") >= 2
    return (m["file"], m["line"], m["op"], m["before"], m["after"]), ("survives" if ok else "killed"), out[-300:]


def main():
    cmd = sys.argv[1]
    if cmd == "gen":
        ms = gen()
        print(len(ms))
        from collections import Counter
        print(Counter(m["op"] for m in ms))
        return
    a = sys.argv[2:]
    jobs, only, limit, sample, surv = 8, None, None, None, None
    pos = []
    while a:
        x = a.pop(0)
        if x == "-j":
            jobs = int(a.pop(0))
        elif x == "--only":
            only = a.pop(0)
        elif x == "--limit":
            limit = int(a.pop(0))
        elif x == "--sample":
            sample = int(a.pop(0))
        elif x == "--survivors":
            surv = a.pop(0)
        else:
            pos.append(x)
    run = str(os.getpid())
    if cmd == "static":
        ms = gen()
        if surv:
            keep = {(r["file"], r["line"], r["op"], r["before"], r["after"]) for r in json.load(open(surv)) if r.get("tests") == "survives"}
            ms = [m for m in ms if (m["file"], m["line"], m["op"], m["before"], m["after"]) in keep]
        if only:
            ms = [m for m in ms if only in m["file"] or only == m["op"]]
        if sample:
            random.Random(1).shuffle(ms)
            ms = ms[:sample]
        if limit:
            ms = ms[:limit]
        out = []
        with ProcessPoolExecutor(jobs) as ex:
            for i, r in enumerate(ex.map(one_static, [(m, run) for m in ms])):
                out.append(r)
                print("%s %-9s %s:%d %s  [%s] -> [%s] %s" % (r["id"], r["status"], r["file"], r["line"], r["op"], r["before"][:50], r["after"][:50],
                                                          ",".join(r.get("by", [])[:2])), flush=True)
                if i % 20 == 0:
                    json.dump(out, open(pos[0], "w"), indent=1)
        json.dump(out, open(pos[0], "w"), indent=1)
        shutil.rmtree("/var/tmp/mut.%s" % run, ignore_errors=True)
        shutil.rmtree("/var/tmp/rss_cache_mut.%s" % run, ignore_errors=True)
        from collections import Counter
        print(Counter(r["status"] for r in out))
    elif cmd == "tests":
        recs = json.load(open(pos[0]))
        allm = {(m["file"], m["line"], m["op"], m["before"], m["after"]): m for m in gen()}
        todo = [allm[k] for k in ((r["file"], r["line"], r["op"], r["before"], r["after"]) for r in recs
                                  if r["status"] == "silent" and not r.get("tests")) if k in allm]
        print("silent mutants to test:", len(todo), flush=True)
        res = {}
        chunks = [todo[i::jobs] for i in range(jobs)]
        import threading
        lock = threading.Lock()

        def save():
            for r in recs:
                k = (r["file"], r["line"], r["op"], r["before"], r["after"])
                if k in res:
                    r["tests"] = res[k]
            json.dump(recs, open(pos[1], "w"), indent=1)

        def run_chunk(w):
            for m in chunks[w]:
                k, st, tail = one_test((m, run, w))
                with lock:
                    res[k] = st
                    print("%s %s:%d %s [%s] -> [%s]" % (st, m["file"], m["line"], m["op"], m["before"][:50], m["after"][:50]), flush=True)
                    if len(res) % 20 == 0:
                        save()
        from concurrent.futures import ThreadPoolExecutor
        with ThreadPoolExecutor(jobs) as ex:
            list(ex.map(run_chunk, range(jobs)))
        save()
        shutil.rmtree("/var/tmp/muttest.%s" % run, ignore_errors=True)
        from collections import Counter
        print(Counter(res.values()))


if __name__ == "__main__":
    main()
