#!/usr/bin/env python3
"""seed_confirm.py <seeds_dir> <out_dir> [workers]

Confirms seeded changes independently of the agents that wrote them: for each <seeds_dir>/<id>/
(patch.diff, demo file(s), meta.json) it takes a scratch copy of /repo's working tree (outside /repo and
/verif), checks that the demo PASSES without the patch, that with the patch the workspace builds, the 53
baseline tests pass and the demo FAILS.  Scratch copies and build output are removed afterwards."""
import json
import os
import re
import shutil
import subprocess
import sys
import time
from concurrent.futures import ThreadPoolExecutor

REPO = "/repo"
ENV = dict(os.environ, CARGO_NET_OFFLINE="true")


def run(cmd, cwd, env, timeout=1800):
    t = time.time()
    try:
        r = subprocess.run(cmd, cwd=cwd, env=env, shell=True, stdout=subprocess.PIPE, stderr=subprocess.STDOUT,
                           text=True, timeout=timeout)
        return r.returncode, r.stdout, time.time() - t
    except subprocess.TimeoutExpired as e:
        return 124, (e.stdout or "") + "\nTIMEOUT", time.time() - t


def confirm(seed_dir, out_dir, worker):
    sid = os.path.basename(seed_dir.rstrip("/"))
    res = {"id": sid}
    meta = json.load(open(os.path.join(seed_dir, "meta.json")))
    work = "/var/tmp/seedwork/w%d/src" % worker
    target = "/var/tmp/seedwork/w%d/target" % worker
    shutil.rmtree(work, ignore_errors=True)
    os.makedirs(os.path.dirname(work), exist_ok=True)
    subprocess.run(["rsync", "-a", "--exclude", "target", "--exclude", ".git", REPO + "/", work + "/"], check=True)
    # cargo's freshness check is mtime based and the target dir is reused between seeds: make every source
    # file newer than any artifact so a previously patched build can never be mistaken for this tree
    subprocess.run("find . -name '*.rs' -o -name Cargo.toml | xargs touch", cwd=work, shell=True, check=True)
    env = dict(ENV, CARGO_TARGET_DIR=target)
    demos = [f for f in os.listdir(seed_dir) if f.endswith(".rs")]
    loc = meta.get("demo_location", "")
    m = re.search(r"((?:model|solution|solver|server|internal)/tests)", loc)
    tests_dir = m.group(1) if m else None
    if tests_dir is None or not demos:
        res["error"] = "cannot place demo (%r, %s)" % (loc, demos)
        return res
    # a seed may come with demos for several crates: each file goes where the meta says it belongs (default: the first location)
    per_crate = {}
    for d in demos:
        m2 = re.search(r"((?:model|solution|solver|server|internal)/tests)/" + re.escape(d), loc)
        td = m2.group(1) if m2 else tests_dir
        os.makedirs(os.path.join(work, td), exist_ok=True)
        shutil.copy(os.path.join(seed_dir, d), os.path.join(work, td, d))
        per_crate.setdefault(td.split("/")[0], []).append(d)
    demo_cmd = " && ".join("cargo test -p %s --offline %s" % (crate, " ".join("--test " + d[:-3] for d in ds))
                           for crate, ds in sorted(per_crate.items()))
    res["demo_cmd"] = demo_cmd
    rc, out, t = run("timeout 900 bash -c %r" % demo_cmd, work, env)
    res["demo_without_patch"] = {"rc": rc, "s": round(t, 1), "tail": out[-600:] if rc else ""}
    rc, out, t = run("patch -p1 --no-backup-if-mismatch < %s" % os.path.join(seed_dir, "patch.diff"), work, env)
    res["patch_applies"] = rc == 0
    if rc != 0:
        res["patch_out"] = out[-800:]
        return res
    subprocess.run("find . -name '*.rs' | xargs touch", cwd=work, shell=True, check=True)
    rc, out, t = run("cargo build --workspace --offline", work, env)
    res["build_with_patch"] = {"rc": rc, "s": round(t, 1), "tail": out[-600:] if rc else ""}
    rc, out, t = run("cargo test --workspace --lib --offline --no-fail-fast", work, env)
    passed = sum(int(x) for x in re.findall(r"test result: \w+\. (\d+) passed", out))
    failed = sum(int(x) for x in re.findall(r"test result: \w+\. \d+ passed; (\d+) failed", out))
    res["baseline_with_patch"] = {"rc": rc, "passed": passed, "failed": failed, "s": round(t, 1)}
    rc, out, t = run("timeout 900 bash -c %r" % demo_cmd, work, env)
    res["demo_with_patch"] = {"rc": rc, "s": round(t, 1), "tail": out[-900:]}
    res["confirmed"] = (res["demo_without_patch"]["rc"] == 0 and res["build_with_patch"]["rc"] == 0
                        and passed == 53 and failed == 0 and res["demo_with_patch"]["rc"] not in (0, 124) or
                        (res["demo_without_patch"]["rc"] == 0 and res["build_with_patch"]["rc"] == 0 and passed == 53
                         and failed == 0 and res["demo_with_patch"]["rc"] == 124 and "hang" in json.dumps(meta).lower()))
    shutil.rmtree(work, ignore_errors=True)
    return res


def main():
    seeds_dir, out_dir = sys.argv[1], sys.argv[2]
    workers = int(sys.argv[3]) if len(sys.argv) > 3 else 4
    only = sys.argv[4].split(",") if len(sys.argv) > 4 else None
    os.makedirs(out_dir, exist_ok=True)
    seeds = sorted(d for d in os.listdir(seeds_dir) if os.path.isdir(os.path.join(seeds_dir, d)))
    if only:
        seeds = [s for s in seeds if s in only]
    seeds = [s for s in seeds if not os.path.exists(os.path.join(out_dir, s + ".json"))]
    import queue
    q = queue.Queue()
    for s in seeds:
        q.put(s)

    def loop(w):
        while True:
            try:
                s = q.get_nowait()
            except queue.Empty:
                return
            try:
                r = confirm(os.path.join(seeds_dir, s), out_dir, w)
            except Exception as e:
                r = {"id": s, "error": repr(e)}
            json.dump(r, open(os.path.join(out_dir, s + ".json"), "w"), indent=1)
            print(s, "confirmed" if r.get("confirmed") else "NOT-CONFIRMED", r.get("error", ""), flush=True)
    with ThreadPoolExecutor(workers) as ex:
        list(ex.map(loop, range(workers)))
    shutil.rmtree("/var/tmp/seedwork", ignore_errors=True)


if __name__ == "__main__":
    main()
