#!/bin/bash
# extract.sh <repo-dir> <out-dir> [lib|all]
# Runs the rsslint driver over every compilation unit of the workspace at <repo-dir>
# (cargo +nightly check, fresh target dir so cargo cannot skip the wrapper) and leaves
# one JSON fact file per unit in <out-dir>.
set -euo pipefail
REPO="$1"; OUT="$2"; MODE="${3:-lib}"
DRV=/verif/rsslint/target/release/rsslint
if [ ! -x "$DRV" ]; then
  (cd /verif/rsslint && CARGO_NET_OFFLINE=true cargo build --release --offline >&2)
fi
SYSROOT=$(rustc +nightly --print sysroot)
T=$(mktemp -d /var/tmp/rsslint-target.XXXXXX)
trap 'rm -rf "$T"' EXIT
mkdir -p "$OUT"
rm -f "$OUT"/*.json
EXTRA=""
if [ "$MODE" = "all" ]; then EXTRA="--all-targets"; fi
if [ "$MODE" = "release" ]; then EXTRA="--release"; fi
cd "$REPO"
LD_LIBRARY_PATH="$SYSROOT/lib" \
RUSTFLAGS="-Zmir-opt-level=0 -Zalways-encode-mir -Awarnings" \
RUSTC_WRAPPER="$DRV" \
RSSLINT_CRATES="${RSSLINT_CRATES:-model,solution,solver,server,internal,single_run,rapid_solve,controls}" \
RSSLINT_OUT="$OUT" \
CARGO_TARGET_DIR="$T" \
CARGO_NET_OFFLINE=true \
cargo +nightly check --offline --workspace $EXTRA -q >&2
ls "$OUT"/*.json >/dev/null
