//! Compile-fail witnesses (type-level part of C01 / C10 / C11 / C13).
//!
//! The representation-invariant arguments of the checks rest on *who can build or mutate* a
//! `Tour`, `Schedule`, `Transition` or `Path`.  Inside the analysed crates that is decided by the
//! who-may-construct / who-may-call inventories over MIR.  For all code *outside* the `solution`
//! crate it is the compiler that enforces it; each witness below is a program that must not
//! type-check, with a named error code, paired with a compiling twin that differs only by the
//! offending access (a witness whose path is merely wrong would also "fail to compile").
//! Run with `cargo +nightly test --doc --offline` (stable ignores the error codes).

/// A schedule's tours cannot be reached as a field from outside the crate.
/// ```compile_fail,E0616
/// fn f(s: &solution::Schedule) -> usize { s.tours.len() }
/// ```
/// twin:
/// ```
/// fn f(s: &solution::Schedule) -> usize { s.get_tours().len() }
/// ```
pub struct ScheduleFieldsArePrivate;

/// The cached objective components cannot be overwritten from outside.
/// ```compile_fail,E0616
/// fn f(mut s: solution::Schedule) -> solution::Schedule { s.costs = 0; s }
/// ```
/// twin:
/// ```
/// fn f(s: solution::Schedule) -> (solution::Schedule, u64) { let c = s.costs(); (s, c) }
/// ```
pub struct ScheduleCachesArePrivate;

/// The unchecked tour constructor is private to `solution::tour`.
/// ```compile_fail,E0624
/// use std::sync::Arc;
/// fn f(n: Vec<model::base_types::NodeIdx>, nw: Arc<model::network::Network>) {
///     let _ = solution::tour::Tour::new_computing(n, false, nw);
/// }
/// ```
/// twin (the validated entry for outside code is a schedule modification):
/// ```
/// use std::sync::Arc;
/// fn f(s: &solution::Schedule, vt: model::base_types::VehicleTypeIdx, n: Vec<model::base_types::NodeIdx>) {
///     let _ = s.spawn_vehicle_for_path(vt, n);
/// }
/// ```
pub struct UncheckedTourConstructorIsPrivate;

/// Even the validating tour constructor is not reachable from outside `solution`.
/// ```compile_fail,E0624
/// use std::sync::Arc;
/// fn f(n: Vec<model::base_types::NodeIdx>, nw: Arc<model::network::Network>) {
///     let _ = solution::tour::Tour::new(n, nw);
/// }
/// ```
/// twin:
/// ```
/// fn f(t: &solution::tour::Tour) -> usize { t.all_nodes_iter().count() }
/// ```
pub struct TourConstructorIsCrateInternal;

/// A tour's node vector cannot be edited in place.
/// ```compile_fail,E0616
/// fn f(t: &mut solution::tour::Tour) { t.nodes.clear(); }
/// ```
/// twin:
/// ```
/// fn f(t: &solution::tour::Tour) -> Vec<model::base_types::NodeIdx> { t.all_nodes_iter().collect() }
/// ```
pub struct TourNodesArePrivate;

/// A transition cannot be assembled field by field outside `solution`.
/// ```compile_fail,E0451
/// fn f(t: solution::transition::Transition) -> solution::transition::Transition {
///     solution::transition::Transition { total_maintenance_violation: 0, ..t }
/// }
/// ```
/// twin:
/// ```
/// fn f(t: solution::transition::Transition) -> i64 { t.maintenance_violation() }
/// ```
pub struct TransitionFieldsArePrivate;

/// The unvalidated path constructor is crate-internal (outside code must use the checking `Path::new`).
/// ```compile_fail,E0624
/// use std::sync::Arc;
/// fn f(n: Vec<model::base_types::NodeIdx>, nw: Arc<model::network::Network>) {
///     let _ = solution::path::Path::new_trusted(n, nw);
/// }
/// ```
/// twin:
/// ```
/// use std::sync::Arc;
/// fn f(n: Vec<model::base_types::NodeIdx>, nw: Arc<model::network::Network>) {
///     let _ = solution::path::Path::new(n, nw);
/// }
/// ```
pub struct TrustedPathConstructorIsCrateInternal;

/// Train formations are not even nameable outside the crate, let alone growable.
/// ```compile_fail,E0603
/// fn f(t: &solution::train_formation::TrainFormation) -> u32 { t.vehicle_count() }
/// ```
/// twin (formations are read through the schedule):
/// ```
/// fn f(s: &solution::Schedule, n: model::base_types::NodeIdx) -> u32 { s.train_formation_of(n).vehicle_count() }
/// ```
pub struct TrainFormationModuleIsPrivate;

/// A shared schedule cannot be modified through a `&Schedule`: there is no `&mut self` API and
/// modifications return new values, so a `&Schedule` held by the local search stays what it was.
/// ```compile_fail,E0308
/// fn f(s: &solution::Schedule) -> &solution::Schedule { let r: &solution::Schedule = s.improve_depots(None); r }
/// ```
/// twin:
/// ```
/// fn f(s: &solution::Schedule) -> solution::Schedule { s.improve_depots(None) }
/// ```
pub struct ModificationsReturnNewValues;
