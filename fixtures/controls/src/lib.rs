//! Positive controls for the zero-count and recogniser rules of /verif: a tiny crate with one
//! planted instance per rule.  It is analysed by the same driver on every run; a control that
//! does not fire marks the check as broken (never as a violation of the property).
#![allow(dead_code, unused)]
use std::cell::Cell;
use std::sync::atomic::AtomicUsize;
use std::sync::{Arc, Mutex};

/// interior mutability directly in a field (Freeze = false)
pub struct WithCell {
    pub hits: Cell<u32>,
}

/// interior mutability behind a pointer (Freeze = true, found by the type walk)
pub struct WithSharedLock {
    pub shared: Arc<Mutex<Vec<u32>>>,
}

/// global state
pub static COUNTER: AtomicUsize = AtomicUsize::new(0);
pub static mut RAW_COUNTER: u32 = 0;

/// an unsafe block
pub fn peek(v: &[u32]) -> u32 {
    unsafe { *v.get_unchecked(0) }
}

pub struct Value {
    items: Vec<u32>,
    total: u32,
    tag: u32,
}

impl Value {
    /// public mutation in place
    pub fn bump(&mut self) {
        self.total += 1;
    }

    /// coupled-update violation: items rebuilt, total inherited
    pub fn with_item(&self, x: u32) -> Value {
        let mut items = self.items.clone();
        items.push(x);
        Value { items, total: self.total, tag: self.tag }
    }

    /// lost update: the working copy is modified and then dropped
    pub fn lost(&self, x: u32) -> Value {
        let mut items = self.items.clone();
        items.retain(|&i| i != x);
        Value { items: self.items.clone(), total: self.total + 1, tag: self.tag }
    }

    /// correct rebuild
    pub fn good(&self, x: u32) -> Value {
        let mut items = self.items.clone();
        items.push(x);
        Value { items, total: self.total + x, tag: self.tag }
    }
}

pub fn fallible(x: u32) -> Result<Value, String> {
    if x > 3 { Err("too big".into()) } else { Ok(Value { items: vec![x], total: x, tag: 0 }) }
}

/// error discipline violation: a Result of the listed API is unwrapped
pub fn swallow(x: u32) -> Value {
    fallible(x).unwrap()
}

/// an unguarded `len() - 2`
pub fn unguarded(v: &Vec<u32>) -> usize {
    v.len() - 2
}

/// a stage result that is computed and discarded
pub fn stage_a(x: u32) -> u32 { x + 1 }
pub fn stage_b(x: u32) -> u32 { x * 2 }
pub fn pipeline_discarding(x: u32) -> u32 {
    let a = stage_a(x);
    let _ = a;
    stage_b(x)
}
pub fn pipeline_good(x: u32) -> u32 {
    let a = stage_a(x);
    stage_b(a)
}

/// value-provenance controls for the path interpreter (rss/optabs.py): which sources a returned value is taken from
pub struct Store {
    pub table: Option<Option<u32>>,
    pub total: u32,
    pub limit_a: Option<u32>,
    pub limit_b: Option<u32>,
}

impl Store {
    fn a(&self) -> Option<u32> { self.limit_a }
    fn b(&self) -> Option<u32> { self.limit_b }

    /// capped: min of both
    pub fn cap_min(&self) -> u32 {
        match self.table {
            Some(Some(c)) => u32::min(c, self.total),
            Some(None) => self.total,
            None => 0,
        }
    }
    /// capped: compared with the total before it is returned
    pub fn cap_if(&self) -> u32 {
        match self.table {
            Some(Some(c)) => if c < self.total { c } else { self.total },
            Some(None) => self.total,
            None => 0,
        }
    }
    /// capped: map_or with a closure that takes the minimum
    pub fn cap_map_or(&self) -> u32 {
        match self.table {
            Some(limit) => limit.map_or(self.total, |c| c.min(self.total)),
            None => 0,
        }
    }
    /// NOT capped: the table value is returned as it is
    pub fn cap_missing(&self) -> u32 {
        match self.table {
            Some(limit) => limit.unwrap_or(self.total),
            None => 0,
        }
    }
    /// both limits count
    pub fn both_match(&self) -> Option<u32> {
        match (self.a(), self.b()) {
            (Some(x), Some(y)) => Some(x.min(y)),
            (Some(x), None) => Some(x),
            (None, y) => y,
        }
    }
    pub fn both_map_or(&self) -> Option<u32> {
        let (a, b) = (self.a(), self.b());
        match a {
            Some(x) => Some(b.map_or(x, |y| x.min(y))),
            None => b,
        }
    }
    /// the second limit is ignored whenever the first is present
    pub fn first_wins(&self) -> Option<u32> {
        self.a().or(self.b())
    }
}
