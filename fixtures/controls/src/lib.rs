//! Positive controls for the zero-count and recogniser rules of /verif: a tiny crate with one
//! planted instance per rule.  It is analysed by the same driver on every run; a control that
//! does not fire marks the check as broken (never as a violation of the property).
#![allow(dead_code, unused)]
use std::cell::Cell;
use std::sync::atomic::AtomicUsize;
use std::sync::{Arc, Mutex};

/// interior mutability directly in a field (Freeze = false)
pub struct WithCell {
    pub hits: Cell<u32>,
}

/// interior mutability behind a pointer (Freeze = true, found by the type walk)
pub struct WithSharedLock {
    pub shared: Arc<Mutex<Vec<u32>>>,
}

/// global state
pub static COUNTER: AtomicUsize = AtomicUsize::new(0);
pub static mut RAW_COUNTER: u32 = 0;

/// an unsafe block
pub fn peek(v: &[u32]) -> u32 {
    unsafe { *v.get_unchecked(0) }
}

pub struct Value {
    items: Vec<u32>,
    total: u32,
    tag: u32,
}

impl Value {
    /// public mutation in place
    pub fn bump(&mut self) {
        self.total += 1;
    }

    /// coupled-update violation: items rebuilt, total inherited
    pub fn with_item(&self, x: u32) -> Value {
        let mut items = self.items.clone();
        items.push(x);
        Value { items, total: self.total, tag: self.tag }
    }

    /// lost update: the working copy is modified and then dropped
    pub fn lost(&self, x: u32) -> Value {
        let mut items = self.items.clone();
        items.retain(|&i| i != x);
        Value { items: self.items.clone(), total: self.total + 1, tag: self.tag }
    }

    /// correct rebuild
    pub fn good(&self, x: u32) -> Value {
        let mut items = self.items.clone();
        items.push(x);
        Value { items, total: self.total + x, tag: self.tag }
    }
}

pub fn fallible(x: u32) -> Result<Value, String> {
    if x > 3 { Err("too big".into()) } else { Ok(Value { items: vec![x], total: x, tag: 0 }) }
}

/// error discipline violation: a Result of the listed API is unwrapped
pub fn swallow(x: u32) -> Value {
    fallible(x).unwrap()
}

/// an unguarded `len() - 2`
pub fn unguarded(v: &Vec<u32>) -> usize {
    v.len() - 2
}

/// a stage result that is computed and discarded
pub fn stage_a(x: u32) -> u32 { x + 1 }
pub fn stage_b(x: u32) -> u32 { x * 2 }
pub fn pipeline_discarding(x: u32) -> u32 {
    let a = stage_a(x);
    let _ = a;
    stage_b(x)
}
pub fn pipeline_good(x: u32) -> u32 {
    let a = stage_a(x);
    stage_b(a)
}
